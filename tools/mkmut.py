#!/usr/bin/env python3
"""Create a mutant patch without touching /repo.
usage: mkmut.py NAME FILE <<< python-literal list of (old, new[, occurrence]) tuples
writes selftest/mutants/NAME.diff (unified diff, -p1, relative to the repo root)"""
import ast, difflib, os, sys
name, rel = sys.argv[1], sys.argv[2]
pairs = ast.literal_eval(sys.stdin.read())
src = open(os.path.join('/repo', rel)).read()
new = src
for p in pairs:
    old, rep = p[0], p[1]
    occ = p[2] if len(p) > 2 else None
    cnt = new.count(old)
    if occ is None:
        assert cnt == 1, (old, cnt)
        new = new.replace(old, rep)
    else:
        assert cnt > occ, (old, cnt)
        idx = -1
        for _ in range(occ + 1):
            idx = new.index(old, idx + 1)
        new = new[:idx] + rep + new[idx + len(old):]
d = ''.join(difflib.unified_diff(src.splitlines(True), new.splitlines(True), 'a/' + rel, 'b/' + rel))
assert d
out = os.path.join(os.path.dirname(os.path.dirname(os.path.abspath(__file__))), 'selftest', 'mutants', name + '.diff')
open(out, 'w').write(d)
print('wrote', out)
