"""Per-property entries of MANIFEST.json (tools/gen_manifest.py)."""
NOTE = ("trusted base: CPython 3.12, numpy/scipy wheels, the independent oracles in bctmon/oracles.py (cross-checked "
        "by their own self-test); a finite set of executions never proves the universal: the claim is 'held on the "
        "observed executions', the bounds are in the evidence file")
CHECKS = [
 {"id": "C01", "technique": "runtime post-condition monitor + trajectory monitor under injected RNG schedules",
  "text": "every depth-0 call of the 10 rewiring routines is checked position-wise for in/out degree, weight multiset, "
          "diagonal, symmetry / out-strength, zero-budget identity and the latticiser re-indexing identity; exhaustive "
          "over all small graphs, Spy and Hostile schedules, chains of single-iteration calls",
  "note": NOTE},
 {"id": "C06", "technique": "runtime post-condition monitor + trajectory monitor under injected RNG schedules",
  "text": "every call of the four signed randomisers is checked for per-node positive/negative in/out degree, the "
          "positive and negative weight multisets, empty diagonal, symmetry, and the returned strength correlations "
          "are recomputed from input and output; dense and sparse sign patterns, all bin_swaps x wei_freq, Spy and "
          "Hostile schedules, chains of single-iteration calls",
  "note": NOTE},
 {"id": "C11", "technique": "runtime post-condition monitor (BFS connectivity, cost sums, masks) on hostile sparse inputs, "
                            "trajectory monitor, sys.monitoring capture of the distance matrix in use",
  "text": "(strong) connectivity of every output of the four *_connected routines by an independent BFS, on inputs whose "
          "enumerated hostility index (fraction of swaps that disconnect) is reported; lattice cost before/after for "
          "caller-supplied and captured default D; mask cells; negative cases must raise BCTParamError; chains of "
          "single-iteration calls check connectivity after every accepted swap at the API boundary",
  "note": NOTE},
 {"id": "C20", "technique": "runtime post-condition monitor over exhaustively enumerated configurations and injected RNG schedules",
  "text": "shape, 0/1 values, empty diagonal, exact connection count, symmetry, band occupancy of the ring lattice, "
          "cluster completeness, reported count, degree sequences; every (N,K) up to the bound, Spy seeds and every "
          "Hostile policy",
  "note": NOTE},
]

def _e(i, tech, text):
    CHECKS.append({"id": i, "technique": tech, "text": text, "note": NOTE})


_e("C03", "reference-model monitor (independent min-plus closure and exact-hop table) on exhaustive small graphs",
   "every distance routine is compared entry by entry with an independent Floyd-Warshall closure; hop counts must be the "
   "hop count of some minimum-length path (exact-hop Bellman-Ford table); reachability flags, zero diagonals, charpath / "
   "efficiency_bin / efficiency_wei / rout_efficiency against mean and mean inverse distance; exact arithmetic on "
   "integer, dyadic and near-tie lengths; integer-dtype copies of integer lengths must give the float64 result")
_e("C08", "reference-model monitor (brute-force shortest-path counting) on exhaustive small graphs",
   "node and edge betweenness against sigma(s,t|v)/sigma(s,t) counted by brute force on an independent closure; node "
   "vector of the edge routines; sum identities on binary graphs; exact ties, near-ties (1e-6 apart) and unreachable pairs")
_e("C09", "reference-model monitor (O(n^3) triple enumeration)",
   "per-node clustering (bu, bd Fagiolo, wu/wd Onnela, signed default/Zhang/Costantini) and transitivity against direct "
   "enumeration; exact 0.0 for nodes without triangles; unit interval for weights in [0,1]")
_e("C10", "metamorphic pair monitor (sibling routines on the same matrix)",
   "32 documented variant pairs are evaluated on every 0/1 matrix of the exhaustive families, random 0/1 matrices and "
   "symmetric weighted matrices; both sides are the real code, so drift between variants is caught even where no "
   "external oracle is run")
_e("C12", "runtime post-condition monitor: edge-by-edge validation of every returned path",
   "retrieve_shortest_path for ALL ordered pairs of every matrix and transform, navigation_wu paths against L and D, "
   "failed navigations, diagonal, success ratio; integer lengths also as int64 / int32 arrays with and without 'inv'")
_e("C15", "reference-model monitor (subset enumeration and independent one-node peeling)",
   "k-core / s-core matrices and sizes for every k (s on a grid containing the exact occurring strengths), nestedness, "
   "coreness vectors and core sizes, peel order/level validity")
_e("C16", "reference-model monitor (BFS components) with edge-order adversaries",
   "co-membership, labels 1..m, sizes, number_of_components, agreement with distance_bin / breadthdist / reachdist, "
   "rejection of asymmetric input (asymmetric support and asymmetric weights on a symmetric support)")
_e("C17", "runtime post-condition monitor with exact-rational expected counts",
   "threshold_proportional for every p=j/64 (p x N exactly representable, round-half-up demanded strictly), strongest "
   "kept, values unchanged, symmetry, diagonal; threshold_absolute at and between occurring weights; binarize / "
   "normalize / invert (and its involution) / weight_conversion dispatch, also on integer-dtype counts with copy=True; copy=True / copy=False object semantics")
_e("C02", "runtime post-condition monitor with an independent modularity oracle, injected node-visiting schedules",
   "labels exactly 1..k and returned q equal to the modularity recomputed from the definition (every objective, qtype and "
   "gamma) for the returned partition, level by level for hierarchical output; given-partition routines must score that "
   "partition; known finding: modularity_louvain_dir beyond its first aggregation level")
_e("C07", "runtime post-condition monitor scoring start and result with the same independent oracle; re-feed chains",
   "Q_def(result) >= Q_def(start) - 1e-9 for the seven deterministic-gain optimisers from default, planted, random, "
   "near-optimal and own-output starts; strictly increasing hierarchical levels; chains of three re-feeds; known finding: "
   "modularity_louvain_dir beyond its first aggregation level")
_e("C14", "metamorphic monitor (relabelling of the partition argument) over all set partitions of 6 nodes",
   "every partition consumer is evaluated on (W, ci) and (W, phi(ci)) for six injective relabellings including "
   "order-reversing and random ones; partition_distance: symmetry, zero VI / unit MI exactly for coinciding partitions "
   "on all 52x52 pairs, unit interval; agreement columns and buffer sizes; ci2ls / ls2ci round trips; known finding: "
   "gateway_coef_sign")
_e("C18", "residual monitor: defining equations evaluated on the returned arrays with the oracle's own operators",
   "first-passage equation off the diagonal on connected / strongly connected / periodic chains, diffusion efficiency "
   "against 1/MFPT, PageRank fixed point / positivity / unit sum over d and falff, subgraph centrality against "
   "diag(expm(A)), eigenvector centrality as a non-negative unit eigenvector of lambda_max under label shuffles of "
   "degenerate graphs, walk counts against integer matrix powers (bool / small-integer adjacency included); PageRank positive with unit sum on networks with dangling nodes")
_e("C19", "runtime post-condition monitor + offline checker over the recorded random history (SpyRandomState draw log)",
   "observed adjacency against scipy t statistics and BFS components, component labels 1..C, p-values against the "
   "returned null, and every null value recomputed by replaying the k relabellings actually drawn; metamorphic swaps "
   "of groups/tail and subject order; unsuitable thresholds must raise")
_e("C04", "metamorphic monitor (node renumbering) with declared output kinds, exhaustive over all n! permutations of small graphs",
   "~75 measure configurations are evaluated on A and A[p,p]; node vectors, pair matrices, scalars / distributions, "
   "partitions, multisets and walk tensors are compared after the corresponding renumbering; every permutation of every "
   "small graph, random permutations of structured (highly symmetric) and random graphs")
_e("C05", "universal runtime contract on numpy's / python's global generator state + metamorphic reproducibility driver with a Spy RNG",
   "every seeded depth-0 call in every workload is bracketed by a bit-exact comparison of the global generator states; "
   "per seedable function: same seed twice, integer seed vs RandomState(seed) vs Spy(seed), unseeded result as a function "
   "of the global state under interposed histories; thorough: identical digests across fresh processes with different "
   "PYTHONHASHSEED and the multiprocessing NBS variant; inputs include networks with exactly tied candidate moves and multi-pass consensus")
_e("C13", "universal runtime contract: deep pre-call snapshot of every ndarray argument compared after return or raise",
   "dedicated call recipes for every array-taking public function over argument classes able to show an in-place edit "
   "(nonzero diagonal, signed, float32 / int64 / bool, Fortran order, non-contiguous views, canonical and arbitrary "
   "partition labels, option combinations, inf-containing distance matrices) plus the other properties' workloads "
   "replayed under the same monitor")

NOT_APPLICABLE = []
