"""Per-property entries of MANIFEST.json (tools/gen_manifest.py)."""
NOTE = ("trusted base: CPython 3.12, numpy/scipy wheels, the independent oracles in bctmon/oracles.py (cross-checked "
        "by their own self-test); a finite set of executions never proves the universal: the claim is 'held on the "
        "observed executions', the bounds are in the evidence file")
CHECKS = [
 {"id": "C01", "technique": "runtime post-condition monitor + trajectory monitor under injected RNG schedules",
  "text": "every depth-0 call of the 10 rewiring routines is checked position-wise for in/out degree, weight multiset, "
          "diagonal, symmetry / out-strength, zero-budget identity and the latticiser re-indexing identity; exhaustive "
          "over all small graphs, Spy and Hostile schedules, chains of single-iteration calls",
  "note": NOTE},
 {"id": "C06", "technique": "runtime post-condition monitor + trajectory monitor under injected RNG schedules",
  "text": "every call of the four signed randomisers is checked for per-node positive/negative in/out degree, the "
          "positive and negative weight multisets, empty diagonal, symmetry, and the returned strength correlations "
          "are recomputed from input and output; dense and sparse sign patterns, all bin_swaps x wei_freq, Spy and "
          "Hostile schedules, chains of single-iteration calls",
  "note": NOTE},
 {"id": "C11", "technique": "runtime post-condition monitor (BFS connectivity, cost sums, masks) on hostile sparse inputs, "
                            "trajectory monitor, sys.monitoring capture of the distance matrix in use",
  "text": "(strong) connectivity of every output of the four *_connected routines by an independent BFS, on inputs whose "
          "enumerated hostility index (fraction of swaps that disconnect) is reported; lattice cost before/after for "
          "caller-supplied and captured default D; mask cells; negative cases must raise BCTParamError; chains of "
          "single-iteration calls check connectivity after every accepted swap at the API boundary",
  "note": NOTE},
 {"id": "C20", "technique": "runtime post-condition monitor over exhaustively enumerated configurations and injected RNG schedules",
  "text": "shape, 0/1 values, empty diagonal, exact connection count, symmetry, band occupancy of the ring lattice, "
          "cluster completeness, reported count, degree sequences; every (N,K) up to the bound, Spy seeds and every "
          "Hostile policy",
  "note": NOTE},
]
NOT_APPLICABLE = []
