"""Per-property entries of MANIFEST.json (tools/gen_manifest.py)."""
NOTE = ("trusted base: CPython 3.12, numpy/scipy wheels, the independent oracles in bctmon/oracles.py (cross-checked "
        "by their own self-test); a finite set of executions never proves the universal: the claim is 'held on the "
        "observed executions', the bounds are in the evidence file")
CHECKS = [
 {"id": "C01", "technique": "runtime post-condition monitor + trajectory monitor under injected RNG schedules",
  "text": "every depth-0 call of the 10 rewiring routines is checked position-wise for in/out degree, weight multiset, "
          "diagonal, symmetry / out-strength, zero-budget identity and the latticiser re-indexing identity; exhaustive "
          "over all small graphs, Spy and Hostile schedules, chains of single-iteration calls",
  "note": NOTE},
]
NOT_APPLICABLE = []
