#!/bin/bash
# usage: tools/sweep.sh <tier> <seeds...>   -- runs every check for the given seeds, evidence/replays redirected to ./sweep_out
TIER=$1; shift
mkdir -p sweep_out
for SEED in "$@"; do
 for i in 01 02 03 04 05 06 07 08 09 10 11 12 13 14 15 16 17 18 19 20; do
  P=C$i
  out=$(VERIF_SEED=$SEED BCTMON_OUT=$PWD/sweep_out/$TIER-$SEED /venv/bin/python -m bctmon.check --property $P --tier $TIER 2>&1 | grep -v conda)
  rc=$?
  echo "$(echo "$out" | grep -c '^VIOLATION') viol | $(echo "$out" | grep -c '^INCONCLUSIVE') inconcl | $(echo "$out" | tail -1 | cut -c1-160)"
  echo "$out" | grep '^VIOLATION\|^INCONCLUSIVE' | cut -c1-300
 done
done
