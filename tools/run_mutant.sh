#!/bin/bash
# usage: tools/run_mutant.sh [-R] <patch.diff> <PROP> [tier]
# Copies /repo's working tree to a scratch directory outside /repo and /verif,
# applies the patch (-R: in reverse), runs the property's check against the
# copy (BCT_REPO) with evidence/replays redirected to the scratch dir, prints
# the verdict lines, removes the copy.
REV=""
if [ "$1" = "-R" ]; then REV="-R"; shift; fi
PATCH=$(realpath "$1"); PROP=$2; TIER=${3:-quick}
HERE=$(cd "$(dirname "$0")/.." && pwd)
SCR=$(mktemp -d /tmp/bctmut.XXXXXX)
trap 'rm -rf "$SCR"' EXIT
rsync -a --exclude .git --exclude __pycache__ /repo/ "$SCR/repo/"
( cd "$SCR/repo" && patch -s -p1 $REV < "$PATCH" ) || { echo "PATCH-FAILED $PATCH"; exit 3; }
cd "$HERE"
BCT_REPO="$SCR/repo" BCTMON_OUT="$SCR/out" /venv/bin/python -m bctmon.check --property "$PROP" --tier "$TIER" 2>&1 | grep -v conda | sed "s#$SCR#<scratch>#g" | cut -c1-300
exit ${PIPESTATUS[0]}
