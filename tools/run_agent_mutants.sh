#!/bin/bash
# usage: tools/run_agent_mutants.sh C01 C02 ...   (runs /tmp/wt/<ID>/_out/m{1,2}.diff against the property's quick check)
for P in "$@"; do for m in m1 m2; do
  f=${WTBASE:-/tmp/wt}/$P/_out/$m.diff; [ -f $f ] || continue
  out=$(tools/run_mutant.sh $f $P quick | grep -v KNOWN-FINDING)
  nv=$(echo "$out" | grep -c '^VIOLATION')
  echo "$P $m: violations=$nv :: $(echo "$out" | tail -1 | cut -c1-110)"
done; done
