#!/usr/bin/env python3
"""Regenerates MANIFEST.json from tools/manifest_table.py"""
import json, os, sys
HERE = os.path.dirname(os.path.dirname(os.path.abspath(__file__)))
sys.path.insert(0, HERE)
from tools.manifest_table import CHECKS, NOT_APPLICABLE
BASE = ("cd /repo && /venv/bin/python -m pytest -ra -q -p no:cacheprovider --timeout=900 "
        "--continue-on-collection-errors")
m = {
    "version": 1,
    "setup_cmd": "cd /verif && /venv/bin/python -m bctmon.oracles && /venv/bin/python -m bctmon.selfcheck",
    "hooks": {
        "guard": "BCTPY_VERIF",
        "enable": "no source hooks: monitors wrap the public functions of the imported package at run time "
                  "(bctmon.monitor.install) and schedules are injected through the public seed= parameter; "
                  "BCT_REPO selects the tree under test (default /repo)",
        "baseline_off_cmd": BASE,
        "source_commits": [],
        "add_only": True,
    },
    "engines": [{"name": "bctmon", "path": "/verif/bctmon", "serves_properties": [c["id"] for c in CHECKS],
                 "kind_free_text": "runtime monitoring: boundary contracts, reference-model and metamorphic monitors, "
                                   "injected RNG schedules, hostile caller histories with sys.monitoring failpoints, "
                                   "concurrent-caller stress, sys.monitoring reach evidence"}],
    "checks": [],
    "not_applicable": NOT_APPLICABLE,
    "notes": "exit 0 held on observed / 1 VIOLATION / 2 INCONCLUSIVE (obligation unobserved, watchdog); "
             "known findings in /verif/known_findings.json; see DESIGN.md",
}
for c in CHECKS:
    m["checks"].append({
        "property_id": c["id"],
        "quick_cmd": "/venv/bin/python -m bctmon.check --property %s --tier quick" % c["id"],
        "thorough_cmd": "/venv/bin/python -m bctmon.check --property %s --tier thorough" % c["id"],
        "evidence_file": "/verif/evidence/%s.json" % c["id"],
        "replay_cmd_template": "/venv/bin/python -m bctmon.replay {path}",
        "engine": "bctmon",
        "level_claimed": {"category": "exploration", "text": c["text"], "design_ref": "DESIGN.md section 3, " + c["id"]},
        "level_note": c["note"],
        "technique": c["technique"] + "; every judged call is issued through the hostile-caller-history layer "
                     "(reused / read-only argument buffers, primer and sibling calls, failpoint-aborted pre-calls, "
                     "overwritten or re-hashed results, replayed earlier calls -- DESIGN.md 2.11)",
    })
claimed = set(c["id"] for c in CHECKS)
for i in range(1, 21):
    pid = "C%02d" % i
    if pid not in claimed and not any(n["property_id"] == pid for n in m["not_applicable"]):
        m["not_applicable"].append({"property_id": pid, "reason": "not claimed in this commit: its monitor is not built yet "
                                    "(the technique applies; see DESIGN.md section 3)"})
json.dump(m, open(os.path.join(HERE, "MANIFEST.json"), "w"), indent=1)
print("wrote MANIFEST.json with", len(m["checks"]), "checks")
