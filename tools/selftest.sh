#!/bin/bash
# Runs every self-test mutant (selftest/mutants/*.diff; *.fix.diff are applied in reverse) and every kept
# seeded change (seeded/*/patch.diff) against the quick check of its property; prints one line per change.
# A change whose file name starts with several ids (C02_C07_...) is run against each of them.
# usage: tools/selftest.sh [tier]      exit 0 iff every change is caught by at least one of its properties
cd "$(dirname "$0")/.."
TIER=${1:-quick}
fail=0
run() { # $1 = -R or "", $2 = diff, $3 = props (space separated), $4 = label
  caught=""
  for P in $3; do
    out=$(tools/run_mutant.sh $1 "$2" $P $TIER 2>&1 | grep -v KNOWN-FINDING)
    if echo "$out" | grep -q PATCH-FAILED; then caught="PATCH-FAILED"; break; fi
    nv=$(echo "$out" | grep -c '^VIOLATION property='$P)
    cl=$(echo "$out" | grep '^VIOLATION' | sed 's/.*# //' | cut -d' ' -f1 | sort -u | head -4 | tr '\n' ' ')
    [ "$nv" -gt 0 ] && caught="$caught $P[$cl]"
  done
  if [ -z "$caught" ] || [ "$caught" = "PATCH-FAILED" ]; then fail=1; echo "MISSED  $4 ($3) $caught"; else echo "CAUGHT  $4 by$caught"; fi
}
for f in selftest/mutants/*.diff; do
  b=$(basename $f)
  props=$(echo $b | grep -o '^\(C[0-9][0-9]_\)*' | tr '_' ' ')
  R=""; case $b in *.fix.diff) R="-R";; esac
  run "$R" $f "$props" "$b"
done
for d in seeded/*/; do
  id=$(basename $d); P=${id%%_*}
  run "" $d/patch.diff "$P" "seeded/$id"
done
exit $fail
