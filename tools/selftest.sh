#!/bin/bash
# Runs every self-test mutant (selftest/mutants/*.diff; *.fix.diff are applied in reverse) and every kept
# seeded change (seeded/*/patch.diff) against the quick check of its property; prints one line per change.
# A change whose file name starts with several ids (C02_C07_...) is run against each of them.
# usage: [FILTER=<regex on the change's path>] tools/selftest.sh [tier] [parallel]     exit 0 iff every change is caught by at least one of its properties
#   CAUGHT  = exit 1 with a VIOLATION line of that property;  INCONCL = the check refused to say "held" (exit 2);
#   MISSED  = the check said "held"
cd "$(dirname "$0")/.."
TIER=${1:-quick}
PAR=${2:-2}
one() { # $1 = -R or "-", $2 = diff, $3 = props (comma separated), $4 = label
  R=""; [ "$1" = "-R" ] && R="-R"
  caught=""; incon=""
  for P in $(echo $3 | tr ',' ' '); do
    out=$(tools/run_mutant.sh $R "$2" $P $TIER 2>&1 | grep -v KNOWN-FINDING)
    if echo "$out" | grep -q PATCH-FAILED; then caught="PATCH-FAILED"; break; fi
    nv=$(echo "$out" | grep -c '^VIOLATION property='$P)
    cl=$(echo "$out" | grep '^VIOLATION' | sed 's/.*# //' | cut -d' ' -f1 | sort -u | head -4 | tr '\n' ' ')
    [ "$nv" -gt 0 ] && caught="$caught $P[$cl]"
    echo "$out" | grep -q '^INCONCLUSIVE property='$P && incon="$incon $P[$(echo "$out" | grep '^INCONCLUSIVE' | head -1 | sed 's/.*reason=//' | cut -c1-90)]"
  done
  if [ "$caught" = "PATCH-FAILED" ]; then echo "MISSED  $4 ($3) PATCH-FAILED";
  elif [ -n "$caught" ]; then echo "CAUGHT  $4 by$caught";
  elif [ -n "$incon" ]; then echo "INCONCL $4 by$incon";
  else echo "MISSED  $4 ($3)"; fi
}
export -f one
export TIER
{
for f in selftest/mutants/*.diff; do
  b=$(basename $f)
  props=$(echo $b | grep -o '^\(C[0-9][0-9]_\)*' | sed 's/_$//' | tr '_' ',')
  R="-"; case $b in *.fix.diff) R="-R";; esac
  echo "$R $f $props $b"
done
for d in seeded/*/; do
  id=$(basename $d); P=${id%%_*}
  echo "- ${d}patch.diff $P seeded/$id"
done
} | grep -E "${FILTER:-.}" | xargs -P $PAR -L 1 bash -c 'one "$0" "$1" "$2" "$3"' | sort -k2
