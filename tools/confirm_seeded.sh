#!/bin/bash
# usage: tools/confirm_seeded.sh <PROP> <m1|m2>
# Confirms an externally produced breaking change in a scratch worktree of /repo:
#  patch applies; demo exits 1 with it and 0 without; the repository's baseline tests still pass with it.
# On success stores /verif/seeded/<PROP>_<mk>/{patch.diff,demo.py,meta.json}.
P=$1; M=$2
SRC=${WTBASE:-/tmp/wt}/$P/_out
HERE=$(cd "$(dirname "$0")/.." && pwd)
WT=$(mktemp -d /tmp/confirm.XXXXXX); rmdir $WT
git -C /repo worktree add -q --detach $WT HEAD || exit 3
trap 'git -C /repo worktree remove --force '$WT' 2>/dev/null; rm -rf '$WT EXIT
cd $WT
res="{}"
if ! git apply --check $SRC/$M.diff 2>/dev/null; then echo "$P $M: PATCH-DOES-NOT-APPLY"; exit 1; fi
BCT_REPO=$WT PYTHONPATH=$WT timeout 600 /venv/bin/python $SRC/${M}_demo.py >/dev/null 2>&1; clean=$?
git apply $SRC/$M.diff
BCT_REPO=$WT PYTHONPATH=$WT timeout 600 /venv/bin/python $SRC/${M}_demo.py > $WT/demo_out.txt 2>&1; mut=$?
PYTHONPATH=$WT timeout 2400 /venv/bin/python -m pytest -q -p no:cacheprovider --timeout=900 --continue-on-collection-errors --junitxml=$WT/j.xml test >/dev/null 2>&1
python3 - "$WT/j.xml" > $WT/tests.txt <<'PY'
import sys, json, xml.etree.ElementTree as ET
t = ET.parse(sys.argv[1]); passed = set()
for tc in t.iter('testcase'):
    if not [c for c in tc if c.tag in ('failure', 'error', 'skipped')]:
        passed.add(tc.get('classname') + '::' + tc.get('name'))
base = set(json.load(open('/root/.vp/BASELINE.json'))['stable_pass'])
print(json.dumps({'baseline_passing': len(base), 'baseline_missing_with_change': sorted(base - passed)}))
PY
tests=$(cat $WT/tests.txt)
ok=0
if [ "$clean" = "0" ] && [ "$mut" = "1" ] && echo "$tests" | grep -q '"baseline_missing_with_change": \[\]'; then ok=1; fi
echo "$P $M: demo_clean_exit=$clean demo_mutant_exit=$mut tests=$tests confirmed=$ok"
if [ $ok = 1 ]; then
  D=$HERE/seeded/${P}_${ROUND:-}$M; mkdir -p $D
  cp $SRC/$M.diff $D/patch.diff; cp $SRC/${M}_demo.py $D/demo.py
  python3 - "$P" "$M" "$SRC/${M}_meta.txt" "$D/meta.json" "$tests" "$(git -C /repo rev-parse HEAD)" <<'PY'
import sys, json
p, m, metaf, out, tests, head = sys.argv[1:7]
try: txt = open(metaf).read()
except Exception: txt = ''
json.dump({"property": p, "id": out.split("/")[-2], 'origin': 'independent sub-agent given only the property text and a scratch worktree',
           'what_it_needs_to_manifest_and_author_notes': txt, 'confirmed_on_repo_head': head,
           'what_i_ran': ['git apply --check patch.diff (scratch worktree of /repo HEAD)',
                          'demo.py on the clean worktree -> exit 0', 'demo.py with the patch applied -> exit 1',
                          'repository baseline test command with the patch applied: ' + tests]}, open(out, 'w'), indent=1)
PY
fi
