#!/usr/bin/env python3
"""Builds the table of DESIGN.md section 6.1 from a tools/selftest.sh log:
   tools/selftest.sh > selftest/last_run.log ; tools/gen_mutant_table.py selftest/last_run.log"""
import json, os, re, sys
HERE = os.path.dirname(os.path.dirname(os.path.abspath(__file__)))
log = open(sys.argv[1]).read().split('\n')
rows = []
for l in log:
    m = re.match(r'(CAUGHT|MISSED|INCONCL)\s+(\S+)\s+(.*)', l)
    if not m:
        continue
    st, name, rest = m.groups()
    what = ''
    if name.startswith('seeded/'):
        meta = os.path.join(HERE, name, 'meta.json')
        try:
            txt = json.load(open(meta))['what_it_needs_to_manifest_and_author_notes']
            what = ' '.join(txt.split())[:230]
        except Exception:
            pass
    else:
        what = 'inverse of a fix: commit (the original defect)' if name.endswith('.fix.diff') else 'hand-written fault'
    rows.append((name, st, rest.replace('by ', ''), what))
out = ['| Change | Verdict | Caught by check [function/clause ...] | What it is / what it needs |', '|---|---|---|---|']
for name, st, rest, what in rows:
    out.append('| `%s` | %s | %s | %s |' % (name, st.lower(), rest.strip().replace('|', '/'), what.replace('|', '/')))
tbl = '\n'.join(out)
p = os.path.join(HERE, 'DESIGN.md')
s = open(p).read()
a, b = '<!-- MUTANT_TABLE_BEGIN -->', '<!-- MUTANT_TABLE_END -->'
if '@@MUTANT_TABLE@@' in s:
    s = s.replace('@@MUTANT_TABLE@@', a + '\n' + tbl + '\n' + b)
else:
    s = s[:s.index(a)] + a + '\n' + tbl + '\n' + s[s.index(b):]
open(p, 'w').write(s)
print('rows', len(rows), 'missed', sum(1 for r in rows if r[1] == 'MISSED'))
