"""Re-execute a recorded violation (or known-finding witness) on the current tree.

usage: python -m bctmon.replay <file.json>
exit 1 if the same (function, clause) is violated again, 0 if it now holds.
"""
import importlib
import json
import os
import sys


def main(path):
    rec = json.load(open(path))
    from . import loader, monitor
    bct = loader.load()
    monitor.install(bct)
    import numpy as np
    np.set_printoptions(threshold=4, edgeitems=1, precision=2)      # the workers' process environment
    workload = rec.get('workload') or rec['property']
    mod = importlib.import_module('bctmon.props.' + workload)
    REC = monitor.REC
    REC.reset()
    REC.prop = workload
    REC.case = rec['case']
    real = sys.stdout
    sys.stdout = open(os.devnull, 'w')
    try:
        monitor.arm(300)
        mod.run(rec['case'], bct, REC)
        monitor.disarm()
    finally:
        sys.stdout = real
    key = (rec['property'], rec['function'], rec['clause'])
    c = REC.counts.get(key, [0, 0])
    print('replayed case of workload %s on %s (HEAD %s)' % (workload, loader.REPO, loader.git_head()[:10]))
    print('%s %s/%s: evaluated %d, violated %d' % (key[0], key[1], key[2], c[0], c[1]))
    for w in REC.witness:
        if (w['property'], w['function'], w['clause']) == key:
            print('witness detail:', json.dumps(w['detail'])[:1500])
            break
    return 1 if c[1] else 0


if __name__ == '__main__':
    sys.exit(main(sys.argv[1]))
