"""Slow, short, independent reference models written from the definitions.
Nothing here imports bct.
"""
import itertools

import numpy as np

INF = np.inf


# ---------------------------------------------------------------- degrees

def degrees(A):
    B = (np.asarray(A) != 0)
    return B.sum(axis=0), B.sum(axis=1)  # in, out


def multiset(W):
    W = np.asarray(W)
    return np.sort(W[W != 0])


# ---------------------------------------------------------------- reachability / components

def bfs_reach(A, s, directed=True):
    B = (np.asarray(A) != 0)
    n = len(B)
    seen = [False] * n
    seen[s] = True
    stack = [s]
    while stack:
        u = stack.pop()
        for v in range(n):
            if not seen[v] and (B[u, v] or (not directed and B[v, u])):
                seen[v] = True
                stack.append(v)
    return seen


def components(A):
    """labels 0..m-1 of the weakly connected components (diagonal ignored)"""
    n = len(A)
    lab = [-1] * n
    m = 0
    for s in range(n):
        if lab[s] < 0:
            for v, r in enumerate(bfs_reach(A, s, directed=False)):
                if r:
                    lab[v] = m
            m += 1
    return np.array(lab), m


def is_connected(A):
    n = len(A)
    return n == 0 or all(bfs_reach(A, 0, directed=False))


def is_strongly_connected(A):
    n = len(A)
    if n == 0:
        return True
    return all(bfs_reach(A, 0, True)) and all(bfs_reach(np.asarray(A).T, 0, True))


def comembership(labels):
    l = np.asarray(labels)
    return l[:, None] == l[None, :]


# ---------------------------------------------------------------- shortest paths

def _edges(L, absent_is_zero=True):
    """edge-length matrix with inf where there is no edge and on the diagonal"""
    L = np.asarray(L, dtype=float)
    E = np.where(L != 0, L, INF) if absent_is_zero else L.copy()
    np.fill_diagonal(E, INF)
    return E


def floyd(L, absent_is_zero=True):
    """min-plus closure of the length matrix L (0 = no edge, or inf = no edge
    when absent_is_zero is False, which admits zero-length edges). Diagonal 0."""
    E = _edges(L, absent_is_zero)
    n = len(E)
    D = E.copy()
    np.fill_diagonal(D, 0)
    for k in range(n):
        D = np.minimum(D, D[:, [k]] + D[[k], :])
    return D


def exact_hops(L, absent_is_zero=True):
    """best[h][i,j] = minimum length over walks from i to j with exactly h edges (h=0..n-1)"""
    E = _edges(L, absent_is_zero)
    n = len(E)
    best = [np.where(np.eye(n, dtype=bool), 0.0, INF)]
    for h in range(1, n):
        prev = best[-1]
        cur = np.min(prev[:, :, None] + E[None, :, :], axis=1)
        best.append(cur)
    return best


def hop_sets(L, D=None, rtol=0.0, absent_is_zero=True):
    """H[i][j] = set of hop counts h for which a minimum-length path with exactly h edges exists"""
    if D is None:
        D = floyd(L, absent_is_zero)
    best = exact_hops(L, absent_is_zero)
    n = len(D)
    H = [[set() for _ in range(n)] for _ in range(n)]
    for h, B in enumerate(best):
        for i in range(n):
            for j in range(n):
                if np.isfinite(D[i, j]) and abs(B[i, j] - D[i, j]) <= rtol * abs(D[i, j]):
                    H[i][j].add(h)
    return H


def _eq(a, b, rtol):
    if rtol == 0.0:
        return a == b
    return abs(a - b) <= rtol * max(abs(a), abs(b))   # purely relative: lengths may be tiny


def sp_counts(L, rtol=0.0):
    """sigma[s,t] = number of shortest s->t paths.  With rtol=0 lengths are compared exactly (use exactly
    representable lengths); with rtol>0 two lengths within that relative distance count as equal (use only on
    inputs without near-ties).  Returns D, sigma."""
    D = floyd(L)
    L = np.asarray(L, dtype=float)
    n = len(L)
    sigma = np.zeros((n, n))
    for s in range(n):
        order = [v for v in np.argsort(D[s], kind='stable') if np.isfinite(D[s, v])]
        sigma[s, s] = 1
        for v in order:
            if v == s:
                continue
            tot = 0.0
            for u in range(n):
                if u != v and L[u, v] != 0 and np.isfinite(D[s, u]) and _eq(D[s, u] + L[u, v], D[s, v], rtol):
                    tot += sigma[s, u]
            sigma[s, v] = tot
    return D, sigma


def betweenness(L, rtol=0.0):
    """Node and edge betweenness by the definition:
    BC[v]   = sum_{s!=v!=t, s!=t, reachable} sigma(s,t|v)/sigma(s,t)
    EBC[u,v]= sum_{s!=t reachable} sigma(s,t|u->v)/sigma(s,t)
    with sigma(s,t|v) = sigma(s,v) sigma(v,t) iff D[s,v]+D[v,t]==D[s,t]."""
    D, sg = sp_counts(L, rtol)
    L = np.asarray(L, dtype=float)
    n = len(L)
    BC = np.zeros(n)
    EBC = np.zeros((n, n))
    for s in range(n):
        for t in range(n):
            if s == t or not np.isfinite(D[s, t]):
                continue
            for v in range(n):
                if v != s and v != t and np.isfinite(D[s, v]) and np.isfinite(D[v, t]) and _eq(D[s, v] + D[v, t], D[s, t], rtol):
                    BC[v] += sg[s, v] * sg[v, t] / sg[s, t]
            for u in range(n):
                if not np.isfinite(D[s, u]):
                    continue
                for v in range(n):
                    if u != v and L[u, v] != 0 and np.isfinite(D[v, t]) and _eq(D[s, u] + L[u, v] + D[v, t], D[s, t], rtol):
                        EBC[u, v] += sg[s, u] * sg[v, t] / sg[s, t]
    return BC, EBC, D, sg


def betweenness_fast(L, rtol=0.0):
    """Same definition as betweenness(), vectorised (O(n^3) numpy): usable on a few hundred nodes."""
    L = np.asarray(L, dtype=float)
    n = len(L)
    D = floyd(L)
    E = L != 0
    np.fill_diagonal(E, False)

    def eq(a, b):
        with np.errstate(invalid='ignore'):
            if rtol == 0.0:
                return a == b
            return np.abs(a - b) <= rtol * np.maximum(np.abs(a), np.abs(b))
    sg = np.zeros((n, n))
    for s in range(n):
        order = [v for v in np.argsort(D[s], kind='stable') if np.isfinite(D[s, v])]
        sg[s, s] = 1
        for v in order:
            if v == s:
                continue
            m = E[:, v] & np.isfinite(D[s]) & eq(D[s] + L[:, v], D[s, v])
            sg[s, v] = sg[s, m].sum()
    BC = np.zeros(n)
    EBC = np.zeros((n, n))
    fin = np.isfinite(D)
    for s in range(n):
        reach = fin[s].copy()
        reach[s] = False                                   # targets t != s reachable from s
        with np.errstate(invalid='ignore', divide='ignore'):
            M = fin[s][:, None] & fin & eq(D[s][:, None] + D, D[s][None, :]) & reach[None, :]   # M[v,t]
            ratio = np.where(M, sg / np.where(sg[s] > 0, sg[s], 1)[None, :], 0.0)             # sigma(v,t)/sigma(s,t)
        dep = ratio.sum(axis=1)                            # includes t == v (ratio 1/sigma(s,v))
        inner = M.copy()
        inner[np.arange(n), np.arange(n)] = False          # v strictly between: t != v
        inner[s, :] = False
        BC += sg[s] * np.where(inner, ratio, 0.0).sum(axis=1)
        with np.errstate(invalid='ignore'):
            Es = E & fin[s][:, None] & eq(D[s][:, None] + L, D[s][None, :])                     # Es[u,v]
        dep_v = dep.copy()
        dep_v[s] = 0.0
        EBC += np.where(Es, sg[s][:, None] * dep_v[None, :], 0.0)
    return BC, EBC, D, sg


# ---------------------------------------------------------------- clustering

def clustering_bu(A):
    A = (np.asarray(A) != 0)
    n = len(A)
    C = np.zeros(n)
    tri_total = 0
    trip_total = 0
    for u in range(n):
        nb = [v for v in range(n) if v != u and A[u, v]]
        k = len(nb)
        links = sum(1 for a, b in itertools.combinations(nb, 2) if A[a, b])
        if k >= 2:
            C[u] = links / (k * (k - 1) / 2.0)
        tri_total += links
        trip_total += k * (k - 1) / 2.0
    T = tri_total / trip_total if trip_total else np.nan
    return C, T


def _fagiolo(Wc, A):
    """numerator t_i = (1/2) sum_{j,h} (w_ij+w_ji)(w_ih+w_hi)(w_jh+w_hj) with cube-rooted weights Wc;
    denominator k(k-1) - 2 k_bi"""
    n = len(A)
    S = Wc + Wc.T
    t = np.zeros(n)
    for i in range(n):
        acc = 0.0
        for j in range(n):
            if j == i or S[i, j] == 0:
                continue
            for h in range(n):
                if h == i or h == j:
                    continue
                acc += S[i, j] * S[i, h] * S[j, h]
        t[i] = acc / 2.0
    ktot = A.sum(axis=0) + A.sum(axis=1)
    kbi = np.array([sum(1 for j in range(n) if j != i and A[i, j] and A[j, i]) for i in range(n)])
    den = ktot * (ktot - 1) - 2 * kbi
    return t, den.astype(float)


def clustering_bd(A):
    A = (np.asarray(A) != 0).astype(float)
    np.fill_diagonal(A, 0)
    t, den = _fagiolo(A, A)
    C = np.array([t[i] / den[i] if t[i] != 0 and den[i] != 0 else 0.0 for i in range(len(A))])
    T = t.sum() / den.sum() if den.sum() else np.nan
    return C, T


def clustering_wd(W):
    W = np.asarray(W, dtype=float).copy()
    np.fill_diagonal(W, 0)
    A = (W != 0).astype(float)
    Wc = np.sign(W) * np.abs(W) ** (1.0 / 3)
    t, den = _fagiolo(Wc, A)
    C = np.array([t[i] / den[i] if t[i] != 0 and den[i] != 0 else 0.0 for i in range(len(A))])
    T = t.sum() / den.sum() if den.sum() else np.nan
    return C, T


def clustering_wu(W):
    """Onnela: C_i = sum_{j,h} (w_ij w_ih w_jh)^(1/3) / (k_i (k_i-1))   (ordered pairs j,h)"""
    W = np.asarray(W, dtype=float).copy()
    np.fill_diagonal(W, 0)
    n = len(W)
    A = (W != 0)
    C = np.zeros(n)
    num_tot = 0.0
    den_tot = 0.0
    for i in range(n):
        nb = [j for j in range(n) if A[i, j]]
        k = len(nb)
        acc = 0.0
        for j in nb:
            for h in nb:
                if j != h and A[j, h]:
                    p = W[i, j] * W[i, h] * W[j, h]
                    acc += np.sign(p) * abs(p) ** (1.0 / 3)
        if k >= 2 and acc != 0:
            C[i] = acc / (k * (k - 1))
        num_tot += acc
        den_tot += k * (k - 1)
    T = num_tot / den_tot if den_tot else np.nan
    return C, T


def clustering_zhang(W):
    W = np.asarray(W, dtype=float)
    n = len(W)
    C = np.zeros(n)
    for i in range(n):
        num = 0.0
        den = 0.0
        for j in range(n):
            for q in range(n):
                if i in (j, q):
                    continue
                if j != q:
                    num += W[j, i] * W[i, q] * W[j, q]
                    den += W[j, i] * W[i, q]
        C[i] = num / den if num != 0 and den != 0 else 0.0
    return C


def clustering_costantini(W):
    W = np.asarray(W, dtype=float)
    n = len(W)
    C = np.zeros(n)
    for i in range(n):
        num = 0.0
        den = 0.0
        for j in range(n):
            for q in range(n):
                if i in (j, q) or j == q:
                    continue
                num += W[j, i] * W[i, q] * W[j, q]
                den += abs(W[j, i] * W[i, q])
        C[i] = num / den if num != 0 and den != 0 else 0.0
    return C


# ---------------------------------------------------------------- modularity

def q_newman(W, ci, gamma=1.0):
    """(1/s) sum_ij (W_ij - gamma k_i^out k_j^in / s) delta(c_i,c_j)"""
    W = np.asarray(W, dtype=float)
    s = W.sum()
    ko = W.sum(axis=1)
    ki = W.sum(axis=0)
    same = comembership(ci)
    return float(((W - gamma * np.outer(ko, ki) / s) * same).sum() / s)


def q_signed(W, ci, gamma=1.0, qtype='sta'):
    W = np.asarray(W, dtype=float)
    W0 = W * (W > 0)
    W1 = -W * (W < 0)
    s0 = W0.sum()
    s1 = W1.sum()
    same = comembership(ci)

    def part(X, s):
        if s == 0:
            return 0.0
        k = X.sum(axis=1)
        kk = X.sum(axis=0)
        return float(((X - gamma * np.outer(k, kk) / s) * same).sum())
    Q0 = part(W0, s0)
    Q1 = part(W1, s1)
    if qtype == 'smp':
        d0 = 1 / s0 if s0 else 0
        d1 = 1 / s1 if s1 else 0
    elif qtype == 'gja':
        d0 = d1 = 1 / (s0 + s1)
    elif qtype == 'sta':
        d0 = 1 / s0 if s0 else 0
        d1 = 1 / (s0 + s1)
    elif qtype == 'pos':
        d0 = 1 / s0 if s0 else 0
        d1 = 0
    elif qtype == 'neg':
        d0 = 0
        d1 = 1 / s1 if s1 else 0
    else:
        raise KeyError(qtype)
    if s0 == 0:
        d0 = 0
    if s1 == 0:
        d1 = 0
    return d0 * Q0 - d1 * Q1


def q_potts(W, ci, gamma=1.0):
    W = np.asarray(W, dtype=float)
    B = W - gamma * (W == 0)
    B = (B + B.T) / 2
    return float((B * comembership(ci)).sum() / W.sum())


def valid_labels(ci, n):
    ci = np.asarray(ci)
    if ci.shape != (n,):
        return False
    if not np.all(ci == np.round(ci)):
        return False
    u = np.unique(ci)
    return bool(np.array_equal(u, np.arange(1, len(u) + 1)))


# ---------------------------------------------------------------- k-core

def _deg_in(B, i, S, mode):
    if mode == 'dir':
        return sum(B[i, j] + B[j, i] for j in S if j != i)
    return sum(B[i, j] for j in S if j != i)


def kcore_set(A, k, mode='und'):
    """maximal node set in which every node has degree (mode 'und': row sum of the 0/1 support;
    'dir': in+out degree; 'wei': row sum of weights) >= k inside the set.
    One-node-at-a-time peeling (independent of the library's batch peeling)."""
    A = np.asarray(A, dtype=float)
    B = A if mode == 'wei' else (A != 0).astype(float)
    n = len(B)
    alive = [True] * n
    while True:
        idx = [i for i in range(n) if alive[i]]
        removed = False
        for i in idx:
            if _deg_in(B, i, idx, mode) < k:
                alive[i] = False
                removed = True
                break
        if not removed:
            break
    return [i for i in range(n) if alive[i]]


def kcore_set_enum(A, k, mode='und'):
    """same by enumeration of all subsets (n <= 10): the union of all valid sets"""
    A = np.asarray(A, dtype=float)
    B = A if mode == 'wei' else (A != 0).astype(float)
    n = len(B)
    best = set()
    for mask in range(1, 2 ** n):
        S = [i for i in range(n) if (mask >> i) & 1]
        if all(_deg_in(B, i, S, mode) >= k for i in S):
            best |= set(S)
    return sorted(best)


# ---------------------------------------------------------------- statistics (NBS)

def tstat_ind(x, y):
    """pooled-variance two-sample t for each column: x (nx,m), y (ny,m); 0 where variance is 0"""
    from scipy import stats
    with np.errstate(all='ignore'):
        t = stats.ttest_ind(x, y, axis=0, equal_var=True).statistic
    return t


def tstat_rel(x, y):
    from scipy import stats
    with np.errstate(all='ignore'):
        t = stats.ttest_rel(x, y, axis=0).statistic
    return t


# ---------------------------------------------------------------- self-test

def selftest():
    rs = np.random.RandomState(1)
    for t in range(60):
        n = rs.randint(2, 8)
        directed = bool(rs.rand() < .5)
        A = (rs.rand(n, n) < .4).astype(float)
        np.fill_diagonal(A, 0)
        if not directed:
            A = np.triu(A, 1)
            A = A + A.T
        L = A * rs.randint(1, 4, size=(n, n))
        if not directed:
            L = np.triu(L, 1)
            L = L + L.T
        # floyd vs exact-hop table
        D = floyd(L)
        best = exact_hops(L)
        Dh = np.min(np.stack(best), axis=0)
        assert np.array_equal(np.where(np.isfinite(D), D, -1), np.where(np.isfinite(Dh), Dh, -1)), 'floyd/hops'
        # binary distances vs BFS layers
        Db = floyd(A)
        for s in range(n):
            r = bfs_reach(A, s, True)
            assert [bool(x) for x in np.isfinite(Db[s])] == r, 'reach'
        # sigma vs matrix powers on binary graphs
        _, sg = sp_counts(A)
        P = np.eye(n)
        for h in range(1, n):
            P = P @ A
            for i in range(n):
                for j in range(n):
                    if i != j and Db[i, j] == h:
                        assert sg[i, j] == P[i, j], 'sigma'
        # betweenness sums on binary graphs
        BC, EBC, _, _ = betweenness(A)
        fin = np.isfinite(Db) & ~np.eye(n, dtype=bool)
        assert abs(BC.sum() - (Db[fin] - 1).sum()) < 1e-9, 'bc sum'
        for LL in (A, L):
            b1, e1, _, s1 = betweenness(LL)
            b2, e2, _, s2 = betweenness_fast(LL)
            assert np.allclose(b1, b2) and np.allclose(e1, e2) and np.array_equal(s1, s2), 'fast betweenness'
        assert abs(EBC.sum() - Db[fin].sum()) < 1e-9, 'ebc sum'
        # triangles vs trace(A^3)
        if not directed:
            C, T = clustering_bu(A)
            tri = np.trace(A @ A @ A)
            k = A.sum(0)
            trip = (k * (k - 1)).sum()
            if trip:
                assert abs(T - tri / trip) < 1e-12, 'transitivity'
            Cw, Tw = clustering_wu(A)
            assert np.allclose(C, Cw), 'wu on binary'
            Cd, Td = clustering_bd(A)
            assert np.allclose(C, Cd), 'bd on symmetric'
        # kcore enumeration vs peeling
        for k in range(0, n + 1):
            md = 'dir' if directed else 'und'
            assert kcore_set(A, k, md) == kcore_set_enum(A, k, md), 'kcore'
        # components
        lab, m = components(A)
        assert m == len(set(lab))
    return True


if __name__ == '__main__':
    print('oracle selftest', selftest())
