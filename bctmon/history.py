"""Hostile caller histories (DESIGN 2.11).

Every property statement quantifies over *calls*, and a call's answer must not depend on what the process did
before it.  A unit test -- and a monitor that builds a fresh array for every case -- can never see state that
leaks from one call into another: a memo keyed by the identity of the argument, a scratch buffer that is also
handed out as the result, a cache entry that the caller can reach through a returned array, module state left
half-updated by a call that raised.  This layer sits in the boundary wrapper (depth-0 calls only) and makes the
*harness* behave like the most awkward legitimate caller; it adds no oracle of its own except the stability
clause -- the damage shows up in the property's own post-conditions on the real call that follows.

  reuse    every C-contiguous ndarray argument is passed through a persistent buffer per (function, parameter,
           shape, dtype): the library sees the *same object*, edited in place, call after call (a rewiring or
           thresholding loop does exactly that).  A buffer that a result may share memory with is given away
           (never written again).
  abort    before a real call, the previous call of the same routine is started again on its old arguments and
           killed by an exception raised at the j-th executed line of the routine's body (sys.monitoring LINE
           failpoint, source-free).  Whatever the routine had half-written to module state stays.
  prime    before every 4th call the routine is run to completion on the *same argument objects and options* holding
           a renumbered copy of the input (one permutation applied to every node-indexed axis: same sum, same
           number of connections, same extreme values, same validity), then the buffers are refilled with the
           real input: a memo validated by object identity, by the options or by any renumbering-invariant
           checksum is stale at the real call.
  cross    before every 4th call a *sibling* routine (one of the two most recently used other routines whose leading
           parameters have the same names, e.g. kcore_bu / kcore_bd, eigenvector_centrality_und /
           subgraph_centrality, makerandCIJ_und / makerandCIJ_dir) is run to completion on the very same leading
           arguments (its remaining options as in its own last call): state shared between two routines of a
           family (a common memo, a cached mask) is then set up by the sibling.
  spell    Python bool options are passed as np.bool_ or 0 / 1, string options as a non-interned equal copy or a
           np.str_, on two calls out of three.
  thread   a quarter of the calls of cheap routines are issued from a fresh worker thread (thread-local state such as
           the decimal context is at its default there).
  negzero  on a third of the calls the zeros of float arguments are stored as -0.0.
  lock     on half of the judged calls the argument buffers are read-only: a write into the caller's array -- even
           one undone before returning -- raises ("assignment destination is read-only") and is booked as a C13
           violation instead of going unnoticed by the before / after comparison.
  replay   a routine without a seed parameter (and that leaves the global generators alone) is a function of its
           arguments: a few earlier calls are kept (private copies of the arguments, digest of the result) and
           re-issued later, after whatever else happened in between: `same_call_same_result`.
  poison   on odd calls the caller receives a deep copy of the result and the original arrays are overwritten
           (a caller may do what it likes with an array it was given): state that still points at them is now
           garbage and the next call that trusts it fails its post-conditions.
  stable   on even calls the original result is handed out, a reference and a digest are kept for the last few
           results, and they are re-hashed after later calls: `earlier_result_unchanged`.

Switch off with BCTMON_HISTORY=0 (used to bisect a report).
"""
import os
import zlib
import random as pyrandom
import signal
import threading
import time
import sys

import numpy as np

ENABLED = os.environ.get('BCTMON_HISTORY', '1') != '0'
ABORT_POINTS = (2, 5, 9, 14, 22, 35, 60, 110, 200, 400)
ABORT_POINTS_HEAVY = (3, 17, 60, 150, 400, 800, 1600, 3200, 6400, 12800, 25000)   # routines that run for milliseconds: deep into their loops
KEEP = 3
PRIME_EVERY = 4
CROSS_EVERY = 4
REPLAY_EVERY = 6
SOFT_DEADLINE = 1.0   # seconds for any unjudged call of this layer (only while a case watchdog is armed)
EVERY = 8     # an aborted pre-call before every 8th call of a routine (toggling LINE events de-specialises its bytecode)


def _pick(name, n, salt):
    """aperiodic but reproducible choice: a fixed period would always meet the same step of a workload's loop"""
    return zlib.crc32(('%s:%d:%s' % (name, n, salt)).encode())


class InjectedAbort(Exception):
    pass


class PrimerTimeout(BaseException):
    pass


def _fresh_rngs(args, kwargs):
    args = [np.random.RandomState(0) if isinstance(a, np.random.RandomState) else a for a in args]
    kwargs = {k: (np.random.RandomState(0) if isinstance(a, np.random.RandomState) else a) for k, a in kwargs.items()}
    return args, kwargs


class History(object):
    TOOL = 5

    def __init__(self):
        self.pool = {}      # (index among the array arguments, shape, dtype) -> buffer, shared by all routines
        self.last = {}      # fname -> (arguments dict, args, kwargs) as passed last time
        self.fns = {}       # fname -> raw function
        self.recent = []    # most recently called routines, latest first
        self.kept = {}      # fname -> [(digest, [arrays], call_no)]
        self.n = {}         # fname -> call counter
        self.stats = {'reused_buffers': 0, 'fresh_buffers': 0, 'buffers_given_away': 0, 'aborted_precalls': 0,
                      'precalls_completed': 0, 'poisoned_results': 0, 'stability_rechecks': 0, 'primer_calls': 0,
                      'primer_calls_raised': 0, 'sibling_calls': 0, 'respelled_flags': 0, 'calls_from_worker_thread': 0, 'negative_zero_arguments': 0, 'readonly_argument_calls': 0, 'replayed_calls': 0, 'sibling_calls_raised': 0, 'soft_deadline_hits': 0}
        self.siblings_seen = {}
        self._mon_ok = None
        self._armed = None
        self.originals = []
        self.soft = False
        self.cost = {}        # fname -> smoothed duration of the judged call (s)
        self.memo = {}        # fname -> [(args, kwargs, result digest, call_no)]
        self.nondet = set()
        self.banned = set()   # (kind, routine) whose unjudged call ran into the soft deadline once: not tried again

    # ---------------------------------------------------------------- unjudged calls
    def _run(self, fn, args, kwargs):
        """run an unjudged call: fresh RNG objects, global generators restored, soft deadline inside the case watchdog.
        Returns 'ok' | 'raised' | 'aborted' | 'deadline'."""
        args, kwargs = _fresh_rngs(args, kwargs)
        g_np = np.random.get_state()
        g_py = pyrandom.getstate()
        old = signal.getitimer(signal.ITIMER_REAL)
        t0 = time.time()
        if old[0] > 0:
            self.soft = True
            signal.setitimer(signal.ITIMER_REAL, min(SOFT_DEADLINE, old[0]))
        try:
            fn(*args, **kwargs)
            return 'ok'
        except InjectedAbort:
            return 'aborted'
        except PrimerTimeout:
            self.stats['soft_deadline_hits'] += 1
            return 'deadline'
        except Exception:  # noqa -- any outcome of an unjudged call is a history
            return 'raised'
        finally:
            if old[0] > 0:
                self.soft = False
                signal.setitimer(signal.ITIMER_REAL, max(old[0] - (time.time() - t0), 0.005))
            np.random.set_state(g_np)
            pyrandom.setstate(g_py)

    # ---------------------------------------------------------------- spelling
    def respell(self, name, bound):
        """Python bool options are passed as np.bool_ or 0 / 1 on two calls out of three (what a comparison of numpy
        values or a configuration file gives a caller); `copy` is left alone (its in-place meaning is the caller's)"""
        n = self.n.get(name, 0)
        done = None
        for k, v in list(bound.arguments.items()):
            if type(v) is str and len(v) > 1 and k != 'copy':
                # an option value that travelled (read from a file, lower()-ed, a numpy string): equal, not identical
                mode = _pick(name, n, 's' + k) % 3
                if mode == 1:
                    bound.arguments[k] = ''.join(list(v))
                elif mode == 2:
                    bound.arguments[k] = np.str_(v)
                if mode:
                    done = (done or {})
                    done[k] = type(bound.arguments[k]).__name__
                    self.stats['respelled_flags'] += 1
            if type(v) is bool and k != 'copy':
                mode = _pick(name, n, 'b' + k) % 3
                if mode == 1:
                    bound.arguments[k] = np.bool_(v)
                elif mode == 2:
                    bound.arguments[k] = int(v)
                if mode:
                    done = (done or {})
                    done[k] = repr(bound.arguments[k])
                    self.stats['respelled_flags'] += 1
        return done

    # ---------------------------------------------------------------- thread
    def in_thread(self, name, fn, args, kwargs, enter):
        """issue the judged call from a fresh worker thread (thread-local state -- decimal context, numpy error mode,
        anything in threading.local -- is at its default there); returns (result, exception)"""
        box = {}

        def target():
            enter()
            try:
                box['r'] = fn(*args, **kwargs)
            except BaseException as e:  # noqa
                box['e'] = e
        t = threading.Thread(target=target, daemon=True)
        t.start()
        t.join(60)
        if t.is_alive():
            self.banned.add(('thread', name))
            raise PrimerTimeout()
        self.stats['calls_from_worker_thread'] += 1
        return box.get('r'), box.get('e')

    # ---------------------------------------------------------------- reuse
    def substitute(self, name, bound):
        """replace ndarray arguments by persistent buffers holding the same values"""
        self.originals = []
        if bound.arguments.get('copy', True) is False:
            return []
        used = []
        idx = -1
        for k, v in list(bound.arguments.items()):
            if not isinstance(v, np.ndarray):
                continue
            idx += 1
            if type(v) is not np.ndarray or v.size == 0 or not v.flags.c_contiguous or v.dtype == object or v.ndim == 0:
                continue
            key = (idx, v.shape, v.dtype.str)
            buf = self.pool.get(key)
            if buf is None:
                buf = np.empty(v.shape, dtype=v.dtype)
                self.pool[key] = buf
                self.stats['fresh_buffers'] += 1
            else:
                self.stats['reused_buffers'] += 1
                if not buf.flags.writeable:      # a watchdog interrupted the call that had it locked
                    buf.setflags(write=True)
            np.copyto(buf, v)
            if buf.dtype.kind == 'f' and _pick(name, self.n.get(name, 0), 'z' + k) % 3 == 0:
                # absent connections stored as -0.0 (what negating or rounding a matrix leaves behind): equal to 0 in
                # every comparison, different only for signbit / 1/x / copysign
                z = (buf == 0)
                if z.any():
                    buf[z] = -0.0
                    self.stats['negative_zero_arguments'] += 1
            bound.arguments[k] = buf
            used.append((key, buf))
            self.originals.append(v)
        return used

    def release_aliased(self, used, result_arrays):
        for key, buf in used:
            for r in result_arrays:
                if r is buf or np.may_share_memory(r, buf):
                    if self.pool.get(key) is buf:
                        del self.pool[key]
                        self.stats['buffers_given_away'] += 1
                    break

    def remember(self, name, fn, bound):
        self.fns[name] = fn
        if bound.arguments.get('copy', True) is False:
            self.last.pop(name, None)      # never re-run an in-place call on the caller's own array
        else:
            self.last[name] = (dict(bound.arguments), bound.args, bound.kwargs)
        if not self.recent or self.recent[0] != name:
            if name in self.recent:
                self.recent.remove(name)
            self.recent.insert(0, name)
            del self.recent[12:]

    # ---------------------------------------------------------------- abort
    def _monitoring(self):
        if self._mon_ok is None:
            mon = getattr(sys, 'monitoring', None)
            self._mon_ok = False
            if mon is not None:
                try:
                    mon.use_tool_id(self.TOOL, 'bctmon-failpoint')
                    mon.register_callback(self.TOOL, mon.events.LINE, self._on_line)
                    self._mon_ok = True
                except ValueError:
                    pass
        return self._mon_ok

    def _on_line(self, code, line):
        a = self._armed
        if a is None or code is not a[0]:
            return None
        a[1] -= 1
        if a[1] <= 0:
            a[2] += 1
            raise InjectedAbort('failpoint at %s:%d' % (code.co_name, line))

    def precall(self, name, fn):
        """start the previous call again and kill it part-way; returns the line-event count of the abort, 0 if the
        call completed first, None if not attempted"""
        prev = self.last.get(name)
        if prev is None or not self._monitoring() or ('abort', name) in self.banned:
            return None
        n = self.n.get(name, 0)
        heavy = self.cost.get(name, 0.0) > 0.004      # toggling LINE events costs nothing next to such a call
        if _pick(name, n, 'a') % (2 if heavy else EVERY):
            return None
        code = getattr(fn, '__code__', None)
        if code is None:
            return None
        pts = ABORT_POINTS_HEAVY if heavy else ABORT_POINTS
        j = pts[_pick(name, n, 'j') % len(pts)]
        mon = sys.monitoring
        self._armed = [code, j, 0]
        mon.set_local_events(self.TOOL, code, mon.events.LINE)
        try:
            out = self._run(fn, prev[1], prev[2])
        finally:
            fired = self._armed[2]
            self._armed = None
            mon.set_local_events(self.TOOL, code, 0)
        if out == 'deadline':
            self.banned.add(('abort', name))
        if out == 'aborted' or fired:
            self.stats['aborted_precalls'] += 1
            return j
        self.stats['precalls_completed'] += 1
        return 0

    # ---------------------------------------------------------------- prime
    def prime(self, name, fn, bound, used, originals, n_arrays):
        """complete call on the same objects / options with renumbered contents; buffers restored afterwards"""
        n = self.n.get(name, 0)
        if _pick(name, n, 'p') % PRIME_EVERY or not used or len(used) != n_arrays or ('prime', name) in self.banned:
            return False
        size = None
        for key, buf in used:
            if buf.ndim >= 2 and buf.shape[0] == buf.shape[1]:
                size = buf.shape[0]
                break
        if size is None or size < 3:
            return False
        perm = np.random.RandomState((n * 7919 + size) % (2 ** 32)).permutation(size)
        try:
            for key, buf in used:
                if buf.ndim >= 2 and buf.shape[0] == buf.shape[1] == size:
                    buf[...] = buf[perm][:, perm]
                elif buf.shape[0] == size:
                    buf[...] = buf[perm]
            self.stats['primer_calls'] += 1
            out = self._run(fn, bound.args, bound.kwargs)
            if out != 'ok':
                self.stats['primer_calls_raised'] += 1
            if out == 'deadline':
                self.banned.add(('prime', name))
        finally:
            for (key, buf), v in zip(used, originals):
                np.copyto(buf, v)
        return True

    # ---------------------------------------------------------------- cross
    def cross(self, name, bound):
        """a sibling routine is run first on the same leading arguments; returns its name or None"""
        n = self.n.get(name, 0)
        if _pick(name, n, 'x') % CROSS_EVERY or bound.arguments.get('copy', True) is False:
            return None
        mine = list(bound.arguments.items())
        if not mine:
            return None
        cands = [g for g in self.recent if g != name and g in self.last and ('cross', g) not in self.banned and
                 next(iter(self.last[g][0]), None) == mine[0][0]][:2]
        if not cands:
            return None
        g = cands[_pick(name, n, 'g') % len(cands)]
        gargs = dict(self.last[g][0])
        for (k, v), gk in zip(mine, list(gargs)):
            if k != gk:
                break
            if isinstance(v, np.ndarray) != isinstance(gargs[gk], np.ndarray):
                break
            if not isinstance(v, np.ndarray):
                # a scalar (a size, a count) is handed over only if the sibling has itself been called with one at
                # least as large: pick_four_unique_nodes_quickly(70000) must not become makerandCIJ_und(70000, ...)
                if not (type(v) in (int, float) and type(gargs[gk]) in (int, float) and 0 <= v <= gargs[gk]):
                    break
            gargs[gk] = v
        fn = self.fns[g]
        self.stats['sibling_calls'] += 1
        self.siblings_seen[(g, name)] = self.siblings_seen.get((g, name), 0) + 1
        try:
            out = self._run(fn, [], gargs)
        except TypeError:
            out = 'raised'
        if out != 'ok':
            self.stats['sibling_calls_raised'] += 1
        if out == 'deadline':
            self.banned.add(('cross', g))   # outside its domain on this family's inputs (it loops): not a sibling here
        return g

    # ---------------------------------------------------------------- replay
    @staticmethod
    def result_digest(obj, depth=0):
        import hashlib
        h = hashlib.blake2b(digest_size=8)

        def walk(o, d):
            if isinstance(o, np.ndarray):
                h.update(str(o.dtype).encode() + str(o.shape).encode() + np.ascontiguousarray(o).tobytes())
            elif isinstance(o, (list, tuple)) and d < 4:
                h.update(b'[%d' % len(o))
                for x in o:
                    walk(x, d + 1)
            elif isinstance(o, (int, float, complex, str, bool, np.generic)) or o is None:
                h.update(repr(o).encode())
            else:
                h.update(type(o).__name__.encode())
        walk(obj, depth)
        return h.hexdigest()

    def replay_due(self, name, n):
        lst = self.memo.get(name)
        if not lst or name in self.nondet or ('replay', name) in self.banned or _pick(name, n, 'y') % REPLAY_EVERY:
            return None
        return lst[_pick(name, n, 'z') % len(lst)]

    @staticmethod
    def agree(a, b, depth=0):
        """integers, booleans, shapes and structure exactly; floats to 1e-6 of the result's scale (a LAPACK / BLAS
        kernel may round differently for another memory alignment of equal data)"""
        if isinstance(a, (list, tuple)):
            return isinstance(b, (list, tuple)) and len(a) == len(b) and all(History.agree(x, y, depth + 1) for x, y in zip(a, b))
        if isinstance(a, np.ndarray) or isinstance(a, (float, np.floating, complex, np.complexfloating)):
            try:
                x = np.asarray(a)
                y = np.asarray(b)
                if x.shape != y.shape:
                    return False
                if x.dtype.kind in 'fc' or y.dtype.kind in 'fc':
                    if not np.array_equal(np.isfinite(x), np.isfinite(y)) or not np.array_equal(np.isnan(x), np.isnan(y)):
                        return False
                    m = np.isfinite(x)
                    if not np.array_equal(x[~m & ~np.isnan(x)], y[~m & ~np.isnan(y)]):
                        return False
                    scale = float(np.max(np.abs(x[m]))) if m.any() else 0.0
                    return bool(np.all(np.abs(x[m] - y[m]) <= 1e-6 * scale + 1e-300))
                return bool(np.array_equal(x, y))
            except Exception:  # noqa
                return True
        if isinstance(a, (int, bool, str, np.integer, np.bool_)) or a is None:
            try:
                return bool(a == b)
            except Exception:  # noqa
                return True
        return True

    def replay(self, name, fn, entry):
        """re-issue an earlier call on private copies of its arguments; returns (ok, detail) or None if not judged"""
        args, kwargs, first, no = entry
        a2 = self.deep_copy(tuple(args))
        k2 = {k: self.deep_copy(v) for k, v in kwargs.items()}
        box = []

        def thunk(*a, **k):
            box.append(fn(*a, **k))
        out = self._run(thunk, a2, k2)
        if out == 'deadline':
            self.banned.add(('replay', name))
        if out != 'ok':
            return None
        self.stats['replayed_calls'] += 1
        return self.agree(first, box[0]), {'function': name, 'first_issued_as_call_no': no, 'args': list(args), 'kwargs': kwargs,
                                           'result_then': first, 'result_now': box[0]}

    def record(self, name, fn, n, args, kwargs, result, rng_untouched):
        if name in self.nondet:
            return
        if not rng_untouched or self.basis_dependent(fn):
            self.nondet.add(name)
            self.memo.pop(name, None)
            return
        if _pick(name, n, 'm') % 3:
            return
        size = sum(a.size for a in self.arrays_of(list(args) + list(kwargs.values()) + [result], []))
        if size > 60000:
            return
        lst = self.memo.setdefault(name, [])
        lst.append((self.deep_copy(tuple(args)), {k: self.deep_copy(v) for k, v in kwargs.items()}, self.deep_copy(result), n))
        del lst[:-6]

    @staticmethod
    def basis_dependent(fn):
        """an eigen-decomposition inside the routine: with a repeated eigenvalue the solver may return another basis of
        the eigenspace for the same data (and a spectral bisection another sign) -- not a function of the arguments in
        the bitwise sense, left to the property's own oracle"""
        names = set(getattr(getattr(fn, '__code__', None), 'co_names', ()))
        return bool(names & {'eig', 'eigh', 'eigs', 'eigsh', 'eigvals', 'eigvalsh', 'svd'})

    # ---------------------------------------------------------------- results
    @staticmethod
    def arrays_of(obj, out, depth=0):
        if isinstance(obj, np.ndarray):
            out.append(obj)
        elif isinstance(obj, (list, tuple)) and depth < 3:
            for x in obj:
                History.arrays_of(x, out, depth + 1)
        return out

    @staticmethod
    def deep_copy(obj, depth=0):
        if isinstance(obj, np.ndarray):
            return obj.copy() if type(obj) is np.ndarray else obj
        if type(obj) is tuple and depth < 3:
            return tuple(History.deep_copy(x, depth + 1) for x in obj)
        if type(obj) is list and depth < 3:
            return [History.deep_copy(x, depth + 1) for x in obj]
        return obj

    @staticmethod
    def scribble(a):
        if a.dtype.kind == 'f':
            a[...] = np.nan
        elif a.dtype.kind == 'c':
            a[...] = np.nan
        elif a.dtype.kind == 'b':
            np.logical_not(a, out=a)
        elif a.dtype.kind in 'iu':
            a[...] = 113
        else:
            return False
        return True


HIST = History()
