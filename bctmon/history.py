"""Hostile caller histories (DESIGN 2.11).

Every property statement quantifies over *calls*, and a call's answer must not depend on what the process did
before it.  A unit test -- and a monitor that builds a fresh array for every case -- can never see state that
leaks from one call into another: a memo keyed by the identity of the argument, a scratch buffer that is also
handed out as the result, a cache entry that the caller can reach through a returned array, module state left
half-updated by a call that raised.  This layer sits in the boundary wrapper (depth-0 calls only) and makes the
*harness* behave like the most awkward legitimate caller; it adds no oracle of its own except the stability
clause -- the damage shows up in the property's own post-conditions on the real call that follows.

  reuse    every C-contiguous ndarray argument is passed through a persistent buffer per (function, parameter,
           shape, dtype): the library sees the *same object*, edited in place, call after call (a rewiring or
           thresholding loop does exactly that).  A buffer that a result may share memory with is given away
           (never written again).
  abort    before a real call, the previous call of the same routine is started again on its old arguments and
           killed by an exception raised at the j-th executed line of the routine's body (sys.monitoring LINE
           failpoint, source-free).  Whatever the routine had half-written to module state stays.
  poison   on odd calls the caller receives a deep copy of the result and the original arrays are overwritten
           (a caller may do what it likes with an array it was given): state that still points at them is now
           garbage and the next call that trusts it fails its post-conditions.
  stable   on even calls the original result is handed out, a reference and a digest are kept for the last few
           results, and they are re-hashed after later calls: `earlier_result_unchanged`.

Switch off with BCTMON_HISTORY=0 (used to bisect a report).
"""
import os
import random as pyrandom
import sys

import numpy as np

ENABLED = os.environ.get('BCTMON_HISTORY', '1') != '0'
ABORT_POINTS = (2, 5, 9, 14, 22, 35, 60, 110, 200, 400)
KEEP = 3
EVERY = 8     # an aborted pre-call before every 8th call of a routine (toggling LINE events de-specialises its bytecode)


class InjectedAbort(Exception):
    pass


class History(object):
    TOOL = 5

    def __init__(self):
        self.pool = {}      # (fname, param, shape, dtype) -> buffer
        self.last = {}      # fname -> (args, kwargs) as passed last time
        self.kept = {}      # fname -> [(digest, [arrays], call_no)]
        self.n = {}         # fname -> call counter
        self.stats = {'reused_buffers': 0, 'fresh_buffers': 0, 'buffers_given_away': 0, 'aborted_precalls': 0,
                      'precalls_completed': 0, 'poisoned_results': 0, 'stability_rechecks': 0}
        self.last_actions = None
        self._mon_ok = None
        self._armed = None

    # ---------------------------------------------------------------- reuse
    def substitute(self, name, bound):
        """replace ndarray arguments by persistent buffers holding the same values"""
        if bound.arguments.get('copy', True) is False:
            return []
        used = []
        for k, v in list(bound.arguments.items()):
            if not isinstance(v, np.ndarray) or type(v) is not np.ndarray:
                continue
            if v.size == 0 or not v.flags.c_contiguous or v.dtype == object or v.ndim == 0:
                continue
            key = (name, k, v.shape, v.dtype.str)
            buf = self.pool.get(key)
            if buf is None:
                buf = np.empty(v.shape, dtype=v.dtype)
                self.pool[key] = buf
                self.stats['fresh_buffers'] += 1
            else:
                self.stats['reused_buffers'] += 1
            np.copyto(buf, v)
            bound.arguments[k] = buf
            used.append((key, buf))
        return used

    def release_aliased(self, used, result_arrays):
        for key, buf in used:
            for r in result_arrays:
                if r is buf or np.may_share_memory(r, buf):
                    if self.pool.get(key) is buf:
                        del self.pool[key]
                        self.stats['buffers_given_away'] += 1
                    break

    # ---------------------------------------------------------------- abort
    def _monitoring(self):
        if self._mon_ok is None:
            mon = getattr(sys, 'monitoring', None)
            self._mon_ok = False
            if mon is not None:
                try:
                    mon.use_tool_id(self.TOOL, 'bctmon-failpoint')
                    mon.register_callback(self.TOOL, mon.events.LINE, self._on_line)
                    self._mon_ok = True
                except ValueError:
                    pass
        return self._mon_ok

    def _on_line(self, code, line):
        a = self._armed
        if a is None or code is not a[0]:
            return None
        a[1] -= 1
        if a[1] <= 0:
            a[2] += 1
            raise InjectedAbort('failpoint at %s:%d' % (code.co_name, line))

    def precall(self, name, fn):
        """start the previous call again and kill it part-way; True if it was aborted"""
        prev = self.last.get(name)
        if prev is None or not self._monitoring():
            return None
        n = self.n.get(name, 0)
        if n % EVERY != 1:
            return None
        code = getattr(fn, '__code__', None)
        if code is None:
            return None
        args, kwargs = prev
        args = [np.random.RandomState(0) if isinstance(a, np.random.RandomState) else a for a in args]
        kwargs = {k: (np.random.RandomState(0) if isinstance(a, np.random.RandomState) else a) for k, a in kwargs.items()}
        j = ABORT_POINTS[(n // EVERY) % len(ABORT_POINTS)]
        mon = sys.monitoring
        g_np = np.random.get_state()
        g_py = pyrandom.getstate()
        self._armed = [code, j, 0]
        mon.set_local_events(self.TOOL, code, mon.events.LINE)
        aborted = False
        try:
            fn(*args, **kwargs)
        except InjectedAbort:
            aborted = True
        except Exception:  # noqa -- the old arguments may have been edited by the caller since; any outcome is a history
            pass
        finally:
            fired = self._armed[2]
            self._armed = None
            mon.set_local_events(self.TOOL, code, 0)
            np.random.set_state(g_np)
            pyrandom.setstate(g_py)
        if aborted or fired:
            self.stats['aborted_precalls'] += 1
        else:
            self.stats['precalls_completed'] += 1
        return j if (aborted or fired) else 0

    # ---------------------------------------------------------------- results
    @staticmethod
    def arrays_of(obj, out, depth=0):
        if isinstance(obj, np.ndarray):
            out.append(obj)
        elif isinstance(obj, (list, tuple)) and depth < 3:
            for x in obj:
                History.arrays_of(x, out, depth + 1)
        return out

    @staticmethod
    def deep_copy(obj, depth=0):
        if isinstance(obj, np.ndarray):
            return obj.copy() if type(obj) is np.ndarray else obj
        if type(obj) is tuple and depth < 3:
            return tuple(History.deep_copy(x, depth + 1) for x in obj)
        if type(obj) is list and depth < 3:
            return [History.deep_copy(x, depth + 1) for x in obj]
        return obj

    @staticmethod
    def scribble(a):
        if a.dtype.kind == 'f':
            a[...] = np.nan
        elif a.dtype.kind == 'c':
            a[...] = np.nan
        elif a.dtype.kind == 'b':
            np.logical_not(a, out=a)
        elif a.dtype.kind in 'iu':
            a[...] = 113
        else:
            return False
        return True


HIST = History()
