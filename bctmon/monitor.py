"""Boundary monitors.

``install(bct)`` replaces every public function of the ``bct`` namespace (in
every ``bct.*`` module that holds a reference to it) by a wrapper.  Only
depth-0 calls -- calls coming from the harness or from the repository's own
tests, not bct calling bct -- are observed.  Two monitors are universal:

C13  argument immutability: every ndarray argument (recursively inside lists,
     tuples, dicts) is snapshotted before the call and compared after the
     call returned *or raised*.
C05  global-stream monitor: when a seed is given, numpy's and python's global
     generators must be exactly as they were.

All other properties register their post-conditions in the workload modules
(bctmon/props/Cxx.py) and report through ``REC.check``.
"""
import functools
import hashlib
import inspect
import random as pyrandom
import signal
import sys
import threading
import time
import traceback

import numpy as np

from . import history

COPY_FALSE_OK = {'threshold_absolute', 'threshold_proportional', 'weight_conversion', 'binarize',
                 'normalize', 'invert', 'autofix', 'logtransform',
                 # documented "copy=False: add edges directly to the input matrix"
                 'generative_model'}


class CaseTimeout(BaseException):
    pass


def _alarm(signum, frame):
    if history.HIST.soft:
        raise history.PrimerTimeout()
    raise CaseTimeout()


def arm(seconds):
    signal.signal(signal.SIGALRM, _alarm)
    signal.setitimer(signal.ITIMER_REAL, seconds)


def disarm():
    signal.setitimer(signal.ITIMER_REAL, 0)


def digest(*objs):
    h = hashlib.blake2b(digest_size=8)
    for o in objs:
        if isinstance(o, np.ndarray):
            h.update(str(o.dtype).encode())
            h.update(str(o.shape).encode())
            h.update(np.ascontiguousarray(o).tobytes())
        else:
            h.update(repr(o).encode())
    return h.hexdigest()


def jsonable(o, maxel=400):
    """Best-effort conversion of arguments / results to JSON for witnesses."""
    if isinstance(o, np.ndarray):
        if o.size <= maxel:
            return {'__nd__': o.tolist(), 'dtype': str(o.dtype)}
        return {'__nd_big__': list(o.shape), 'dtype': str(o.dtype), 'digest': digest(o)}
    if isinstance(o, (np.integer,)):
        return int(o)
    if isinstance(o, (np.floating,)):
        return float(o)
    if isinstance(o, (np.bool_,)):
        return bool(o)
    if isinstance(o, (list, tuple)):
        return [jsonable(x, maxel) for x in o]
    if isinstance(o, dict):
        return {str(k): jsonable(v, maxel) for k, v in o.items()}
    if isinstance(o, (int, float, str, bool)) or o is None:
        return o
    if hasattr(o, 'descr'):
        return {'__rng__': o.descr}
    return repr(o)[:200]


class Recorder(object):
    """Per-process event sink.  Aggregates counts, keeps witnesses."""

    MAX_WITNESS = 300

    def __init__(self):
        self.reset()

    def reset(self):
        self.counts = {}        # (prop, func, clause) -> [evaluated, violations]
        self.witness = []       # violation records
        self.nontrivial = {}    # prop -> set(digest)
        self.tags = {}          # prop -> {tag: count}
        self.samples = {}       # prop -> [sample]
        self.calls = {}         # function -> depth-0 calls observed
        self.case = None        # current case descriptor (for witnesses)
        self.prop = None        # property whose workload is running
        self.timeouts = 0
        self.case_errors = []
        self.schedules = set()
        self.skips = {}
        self.history = None     # what the history layer did around the last depth-0 call

    def check(self, prop, func, clause, ok, detail=None, classes=()):
        key = (prop, func, clause)
        c = self.counts.setdefault(key, [0, 0])
        c[0] += 1
        if not ok:
            c[1] += 1
            k2 = (prop, func, clause, tuple(classes))
            self.skips[k2] = self.skips.get(k2, 0) + 1
            if self.skips[k2] <= 3 and len(self.witness) < self.MAX_WITNESS:
                self.witness.append({'property': prop, 'function': func, 'clause': clause,
                                     'classes': list(classes), 'detail': jsonable(detail),
                                     'case': self.case, 'workload': self.prop, 'history': self.history})
        return ok

    def skip(self, prop, func, clause):
        k = ('skip', prop, func, clause)
        self.tags.setdefault(prop, {})
        self.tags[prop]['skip:%s/%s' % (func, clause)] = self.tags[prop].get('skip:%s/%s' % (func, clause), 0) + 1

    def note_nontrivial(self, prop, *key):
        self.nontrivial.setdefault(prop, set()).add(digest(*key))

    def tag(self, prop, t, n=1):
        d = self.tags.setdefault(prop, {})
        d[t] = d.get(t, 0) + n

    def sample(self, prop, s, cap=6):
        lst = self.samples.setdefault(prop, [])
        if len(lst) < cap:
            lst.append(jsonable(s))

    def dump(self):
        return {
            'counts': [[list(k), v] for k, v in self.counts.items()],
            'witness': self.witness,
            'nontrivial': {p: sorted(s) for p, s in self.nontrivial.items()},
            'tags': self.tags,
            'samples': self.samples,
            'calls': self.calls,
            'timeouts': self.timeouts,
            'case_errors': self.case_errors[:20],
            'schedules': sorted(self.schedules)[:100000],
            'skips': [[list(k), v] for k, v in self.skips.items()],
        }


REC = Recorder()
_tls = threading.local()


def _arrays_in(obj, path, out, depth=0):
    if isinstance(obj, np.ndarray):
        out.append((path, obj))
    elif hasattr(obj, 'tocsr') and hasattr(obj, 'nnz'):      # scipy.sparse: the caller's data lives in these arrays
        for part in ('data', 'indices', 'indptr', 'row', 'col', 'offsets'):
            a = getattr(obj, part, None)
            if isinstance(a, np.ndarray):
                out.append(('%s.%s' % (path, part), a))
    elif isinstance(obj, (list, tuple)) and depth < 3:
        for i, x in enumerate(obj):
            _arrays_in(x, '%s[%d]' % (path, i), out, depth + 1)
    elif isinstance(obj, dict) and depth < 3:
        for k, x in obj.items():
            _arrays_in(x, '%s[%r]' % (path, k), out, depth + 1)


def _same(a, b):
    if a.dtype != b.dtype or a.shape != b.shape:
        return False
    if a.dtype.kind in 'fc':
        return bool(np.array_equal(a, b, equal_nan=True)) and bool(np.array_equal(np.signbit(a.real), np.signbit(b.real)))
    return bool(np.array_equal(a, b))


def _np_state_equal(s1, s2):
    return s1[0] == s2[0] and np.array_equal(s1[1], s2[1]) and s1[2:] == s2[2:]


def _enter_thread():
    _tls.depth = 1      # calls made by the routine inside the worker thread are not depth-0 calls


def _wrap(name, fn):
    try:
        sig = inspect.signature(fn)
    except (TypeError, ValueError):
        sig = None

    @functools.wraps(fn)
    def wrapper(*args, **kwargs):
        depth = getattr(_tls, 'depth', 0)
        if depth > 0:
            return fn(*args, **kwargs)
        _tls.depth = 1
        try:
            REC.calls[name] = REC.calls.get(name, 0) + 1
            bound = None
            if sig is not None:
                try:
                    bound = sig.bind(*args, **kwargs)
                    bound.apply_defaults()
                except TypeError:
                    bound = None
            # ---- hostile caller history (history.py): aborted re-run of the previous call, then the same
            # argument objects as last time, edited in place
            hist = history.HIST if (history.ENABLED and bound is not None) else None
            used = []
            hn = 0
            if hist is not None:
                hn = hist.n.get(name, 0)
                ab = hist.precall(name, fn)
                spelled = hist.respell(name, bound)
                n_arr = sum(1 for v in bound.arguments.values() if isinstance(v, np.ndarray))
                used = hist.substitute(name, bound)
                primed = hist.prime(name, fn, bound, used, hist.originals, n_arr)
                sib = hist.cross(name, bound)
                if sib or primed:
                    for (key, buf), v in zip(used, hist.originals):   # whatever the unjudged calls did to the buffers
                        np.copyto(buf, v)
                hist.n[name] = hn + 1
                # half of the judged calls get their array arguments read-only (memory-mapped data is): a write into
                # the caller's array, even one that is undone before returning, raises instead of going unnoticed
                locked = []
                if history._pick(name, hn, 'w') % 2 == 0:
                    for key, buf in used:
                        buf.setflags(write=False)
                        locked.append(buf)
                    hist.stats['readonly_argument_calls'] += 1 if locked else 0
                args, kwargs = bound.args, bound.kwargs
                hist.remember(name, fn, bound)
                det_fn = 'seed' not in bound.arguments and name not in hist.nondet
                if det_fn:
                    h_np = np.random.get_state()
                    h_py = pyrandom.getstate()
                REC.history = {'function': name, 'call_no': hn, 'aborted_precall_at_line_event': ab,
                               'argument_buffers_reused': len(used), 'primed_with_renumbered_input': primed, 'sibling_run_first': sib, 'flags_respelled': spelled, 'result_mode': 'poison' if history._pick(name, hn, 'r') % 2 else 'stable'}
            arrs = []
            if bound is not None:
                for k, v in bound.arguments.items():
                    _arrays_in(v, k, arrs)
            else:
                _arrays_in(list(args), 'args', arrs)
                _arrays_in(kwargs, 'kwargs', arrs)
            snaps = [(p, a, a.copy(), a.dtype, a.shape) for p, a in arrs]
            seed_given = False
            if bound is not None and 'seed' in bound.arguments:
                sv = bound.arguments['seed']
                seed_given = not (sv is None or sv is np.random)
            if seed_given:
                g_np = np.random.get_state()
                g_py = pyrandom.getstate()
            exc = None
            t_call = time.perf_counter()
            threaded = (hist is not None and history._pick(name, hn, 't') % 4 == 0 and name in hist.cost and
                        hist.cost[name] < 0.02 and ('thread', name) not in hist.banned)
            try:
                if threaded:
                    result, exc = hist.in_thread(name, fn, args, kwargs, _enter_thread)
                    if exc is not None and not isinstance(exc, Exception):
                        raise exc
                else:
                    result = fn(*args, **kwargs)
            except CaseTimeout:
                raise
            except history.PrimerTimeout:
                raise CaseTimeout()
            except Exception as e:  # noqa
                exc = e
            if hist is not None:
                hist.cost[name] = 0.7 * hist.cost.get(name, 0.0) + 0.3 * (time.perf_counter() - t_call)
                for buf in locked:
                    buf.setflags(write=True)
                if locked and isinstance(exc, ValueError) and 'read-only' in str(exc):
                    REC.check('C13', name, 'args_unchanged', False,
                              {'function': name, 'exception': repr(exc)[:200], 'kwargs': {k: v for k, v in kwargs.items() if not isinstance(v, np.ndarray)}},
                              ['attempted_write_to_readonly_argument'])
            # ---- C13: arguments unchanged
            if snaps:
                allow = name in COPY_FALSE_OK and bound is not None and bound.arguments.get('copy', True) is False
                if not allow:
                    changed = [p for p, a, c, dt, sh in snaps if not (a.dtype == dt and a.shape == sh and _same(a, c))]
                    cls = ['raised'] if exc is not None else ['returned']
                    det = None
                    if changed:
                        p0 = changed[0]
                        a0, c0 = [(a, c) for p, a, c, dt, sh in snaps if p == p0][0]
                        det = {'function': name, 'argument': p0, 'before': c0, 'after': a0.copy(),
                               'kwargs': {k: v for k, v in kwargs.items() if not isinstance(v, np.ndarray)}}
                        # undo the damage so that the rest of the case is not polluted
                        for p, a, c, dt, sh in snaps:
                            try:
                                if a.shape == sh and a.dtype == dt and a.flags.writeable:
                                    a[...] = c
                            except Exception:
                                pass
                    REC.check('C13', name, 'args_unchanged', not changed, det, cls)
            # ---- C05: global generators untouched when a seed is given
            if seed_given:
                ok = _np_state_equal(g_np, np.random.get_state()) and g_py == pyrandom.getstate()
                REC.check('C05', name, 'global_untouched', ok,
                          None if ok else {'function': name, 'seed': repr(bound.arguments['seed'])[:80]})
                if not ok:
                    np.random.set_state(g_np)
                    pyrandom.setstate(g_py)
            if exc is not None:
                raise exc
            if hist is not None:
                if det_fn and bound.arguments.get('copy', True) is not False:
                    hist.record(name, fn, hn, args, kwargs, result,
                                _np_state_equal(h_np, np.random.get_state()) and h_py == pyrandom.getstate())
                    entry = hist.replay_due(name, hn)
                    if entry is not None:
                        r = hist.replay(name, fn, entry)
                        if r is not None:
                            REC.check(REC.prop or 'C13', name, 'same_call_same_result', r[0], None if r[0] else r[1])
                result = _history_after(hist, name, hn, used, arrs, result)
            return result
        finally:
            _tls.depth = 0

    wrapper.__bctmon_wrapped__ = fn
    return wrapper


def _history_after(hist, name, hn, used, arrs, result):
    """stability re-check of earlier results; the caller gets a copy, the original is kept (even calls) or
    overwritten (odd calls)"""
    res_arrays = hist.arrays_of(result, [])
    if used and res_arrays:
        hist.release_aliased(used, res_arrays)
    lst = hist.kept.get(name, ())
    for dg, kept, no in (lst if hn % 8 == 0 else lst[hn % len(lst):hn % len(lst) + 1] if lst else ()):
        hist.stats['stability_rechecks'] += 1
        ok = digest(*kept) == dg
        REC.check(REC.prop or 'C13', name, 'earlier_result_unchanged', ok,
                  None if ok else {'function': name, 'result_of_call_no': no, 'checked_after_call_no': hn,
                                   'now': [a.copy() for a in kept]})
    if not res_arrays:
        return result
    if len(res_arrays) > 1:
        # two arrays handed back by one call are two things the caller owns: writing into one must not change the other
        al = [(i, j) for i in range(len(res_arrays)) for j in range(i + 1, len(res_arrays))
              if res_arrays[i].size and res_arrays[j].size and np.may_share_memory(res_arrays[i], res_arrays[j])]
        REC.check(REC.prop or 'C13', name, 'returned_arrays_do_not_alias', not al,
                  None if not al else {'function': name, 'aliased_positions_in_result': al})
    for r in res_arrays:
        if type(r) is not np.ndarray or not r.flags.writeable:
            return result
        for p, a in arrs:
            if r is a or np.may_share_memory(r, a):
                return result          # copy=False style aliasing: the array is the caller's own
    out = hist.deep_copy(result)
    if history._pick(name, hn, 'r') % 2:
        for r in res_arrays:
            if hist.scribble(r):
                hist.stats['poisoned_results'] += 1
    else:
        lst = hist.kept.setdefault(name, [])
        lst.append((digest(*res_arrays), res_arrays, hn))
        del lst[:-history.KEEP]
    return out


_installed = {}


def public_functions(bct):
    out = {}
    for n, f in vars(bct).items():
        if n.startswith('_'):
            continue
        g = getattr(f, '__bctmon_wrapped__', f)
        if inspect.isfunction(g) and getattr(g, '__module__', '').startswith('bct'):
            out[n] = g
    return out


def install(bct):
    """Wrap every public function everywhere it is referenced in bct.*"""
    if _installed:
        return _installed
    pub = public_functions(bct)
    wrappers = {id(f): _wrap(n, f) for n, f in pub.items()}
    for modname, mod in list(sys.modules.items()):
        if mod is None or not (modname == 'bct' or modname.startswith('bct.')):
            continue
        for attr, val in list(vars(mod).items()):
            w = wrappers.get(id(val))
            if w is not None:
                setattr(mod, attr, w)
    _installed.update({n: wrappers[id(f)] for n, f in pub.items()})
    return _installed


def raw(fn):
    return getattr(fn, '__bctmon_wrapped__', fn)


# --------------------------------------------------------------------------
# sys.monitoring: reach evidence (entries, executed lines) for anchored functions

class Coverage(object):
    TOOL = 3

    def __init__(self):
        self.codes = {}   # code -> name
        self.lines = {}   # name -> set(line)
        self.entries = {}
        self.active = False

    def start(self, funcs):
        mon = getattr(sys, 'monitoring', None)
        if mon is None:
            return
        try:
            mon.use_tool_id(self.TOOL, 'bctmon')
        except ValueError:
            return
        self.active = True
        E = mon.events
        for name, f in funcs.items():
            code = raw(f).__code__
            self.codes[code] = name
            self.lines[name] = set()
            self.entries[name] = 0
            mon.set_local_events(self.TOOL, code, E.PY_START | E.LINE)

        def on_line(code, line):
            n = self.codes.get(code)
            if n is not None:
                self.lines[n].add(line)
            return mon.DISABLE

        def on_start(code, off):
            n = self.codes.get(code)
            if n is not None:
                self.entries[n] += 1

        mon.register_callback(self.TOOL, E.LINE, on_line)
        mon.register_callback(self.TOOL, E.PY_START, on_start)

    def report(self):
        if not self.active:
            return {}
        import dis
        out = {}
        for code, name in self.codes.items():
            all_lines = set(l for _, l in dis.findlinestarts(code) if l is not None and l > code.co_firstlineno)
            hit = self.lines[name] & all_lines
            out[name] = {'entries': self.entries[name], 'lines_hit': sorted(hit), 'lines_all': sorted(all_lines),
                         'file': code.co_filename}
        return out

    def stop(self):
        if self.active:
            sys.monitoring.free_tool_id(self.TOOL)
            self.active = False
