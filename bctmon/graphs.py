"""Workload generators.  Everything is deterministic in its arguments; graphs
are described by small JSON recipes and materialised inside the worker, so a
case descriptor is enough to replay a case.

Recipe forms (lists, first element is the kind):
  ['mask', n, bits, directed]          labelled graph number ``bits`` on n nodes (exhaustive families)
  ['er', n, p, directed, seed]         Erdos-Renyi
  ['named', name, *params]             structured graph (see NAMED)
  ['lit', nested-list]                 literal matrix
Weight schemes (applied on a 0/1 support):
  'bin' | 'real' (0,1] | 'int' small integers 1..3 (many exact ties) | 'dyad' k/8 | 'neartie' | 'bigint' | 'signed' | 'signedint'
"""
import itertools

import numpy as np


# ---------------------------------------------------------------- exhaustive

def n_und(n):
    return 2 ** (n * (n - 1) // 2)


def n_dir(n):
    return 2 ** (n * (n - 1))


def from_mask(n, bits, directed):
    A = np.zeros((n, n))
    if directed:
        cells = [(i, j) for i in range(n) for j in range(n) if i != j]
    else:
        cells = [(i, j) for i in range(n) for j in range(i + 1, n)]
    for b, (i, j) in enumerate(cells):
        if (bits >> b) & 1:
            A[i, j] = 1
            if not directed:
                A[j, i] = 1
    return A


def all_masks(n, directed):
    return range(n_dir(n) if directed else n_und(n))


# ---------------------------------------------------------------- structured

def path(n):
    A = np.zeros((n, n))
    for i in range(n - 1):
        A[i, i + 1] = A[i + 1, i] = 1
    return A


def cycle(n):
    A = path(n)
    if n > 2:
        A[0, n - 1] = A[n - 1, 0] = 1
    return A


def star(n):
    A = np.zeros((n, n))
    A[0, 1:] = 1
    A[1:, 0] = 1
    return A


def wheel(n):
    A = np.zeros((n, n))
    A[1:, 1:] = cycle(n - 1)
    A[0, 1:] = 1
    A[1:, 0] = 1
    return A


def complete(n):
    return np.ones((n, n)) - np.eye(n)


def kab(a, b):
    n = a + b
    A = np.zeros((n, n))
    A[:a, a:] = 1
    A[a:, :a] = 1
    return A


def circulant(n, offs):
    A = np.zeros((n, n))
    for i in range(n):
        for o in offs:
            A[i, (i + o) % n] = 1
            A[(i + o) % n, i] = 1
    np.fill_diagonal(A, 0)
    return A


def hypercube(d):
    n = 2 ** d
    A = np.zeros((n, n))
    for i in range(n):
        for b in range(d):
            A[i, i ^ (1 << b)] = 1
    return A


def grid(r, c):
    n = r * c
    A = np.zeros((n, n))
    for i in range(r):
        for j in range(c):
            u = i * c + j
            if j + 1 < c:
                A[u, u + 1] = A[u + 1, u] = 1
            if i + 1 < r:
                A[u, u + c] = A[u + c, u] = 1
    return A


def disjoint(*mats):
    n = sum(len(m) for m in mats)
    A = np.zeros((n, n))
    o = 0
    for m in mats:
        k = len(m)
        A[o:o + k, o:o + k] = m
        o += k
    return A


def with_isolated(A, k):
    return disjoint(A, np.zeros((k, k)))


def prufer_tree(n, seed):
    rs = np.random.RandomState(seed)
    if n <= 2:
        return path(n)
    seq = rs.randint(0, n, size=n - 2).tolist()
    deg = [1] * n
    for s in seq:
        deg[s] += 1
    A = np.zeros((n, n))
    for s in seq:
        for v in range(n):
            if deg[v] == 1:
                A[v, s] = A[s, v] = 1
                deg[v] -= 1
                deg[s] -= 1
                break
    u, v = [x for x in range(n) if deg[x] == 1][:2]
    A[u, v] = A[v, u] = 1
    return A


def tree_chords(n, c, seed):
    rs = np.random.RandomState(seed + 7919)
    A = prufer_tree(n, seed)
    free = [(i, j) for i in range(n) for j in range(i + 1, n) if not A[i, j]]
    rs.shuffle(free)
    for i, j in free[:c]:
        A[i, j] = A[j, i] = 1
    return A


def barbell(k, bridge=1):
    """two k-cliques joined by a path of ``bridge`` edges"""
    inner = max(bridge - 1, 0)
    n = 2 * k + inner
    A = np.zeros((n, n))
    A[:k, :k] = complete(k)
    A[k + inner:, k + inner:] = complete(k)
    chain = [k - 1] + list(range(k, k + inner)) + [k + inner]
    for a, b in zip(chain[:-1], chain[1:]):
        A[a, b] = A[b, a] = 1
    return A


def ring_of_cliques(m, k):
    n = m * k
    A = np.zeros((n, n))
    for c in range(m):
        A[c * k:(c + 1) * k, c * k:(c + 1) * k] = complete(k)
    for c in range(m):
        a = c * k + k - 1
        b = ((c + 1) % m) * k
        A[a, b] = A[b, a] = 1
    return A


def lollipop(k, t):
    n = k + t
    A = np.zeros((n, n))
    A[:k, :k] = complete(k)
    for i in range(k - 1, n - 1):
        A[i, i + 1] = A[i + 1, i] = 1
    return A


def dcycle(n):
    A = np.zeros((n, n))
    for i in range(n):
        A[i, (i + 1) % n] = 1
    return A


def dcycle_chords(n, c, seed):
    rs = np.random.RandomState(seed)
    A = dcycle(n)
    free = [(i, j) for i in range(n) for j in range(n) if i != j and not A[i, j]]
    rs.shuffle(free)
    for i, j in free[:c]:
        A[i, j] = 1
    return A


def dag(n, p, seed):
    rs = np.random.RandomState(seed)
    A = np.triu((rs.rand(n, n) < p).astype(float), 1)
    return A


def tournament(n, seed):
    rs = np.random.RandomState(seed)
    A = np.zeros((n, n))
    for i in range(n):
        for j in range(i + 1, n):
            if rs.rand() < .5:
                A[i, j] = 1
            else:
                A[j, i] = 1
    return A


def two_blobs_dir(k, seed):
    """two strongly connected blobs joined by one edge in each direction"""
    A = disjoint(dcycle_chords(k, k, seed), dcycle_chords(k, k, seed + 1))
    A[0, k] = 1
    A[k + 1, 1] = 1
    return A


def oneway_bridge(k, seed):
    A = disjoint(dcycle_chords(k, 2, seed), dcycle_chords(k, 2, seed + 1))
    A[0, k] = 1
    return A


def er(n, p, directed, seed):
    rs = np.random.RandomState(seed)
    A = (rs.rand(n, n) < p).astype(float)
    np.fill_diagonal(A, 0)
    if not directed:
        A = np.triu(A, 1)
        A = A + A.T
    return A


def er_connected(n, p, seed):
    """random spanning tree plus ER edges: connected undirected"""
    A = prufer_tree(n, seed)
    B = er(n, p, False, seed + 1)
    return ((A + B) > 0).astype(float)


def er_strong(n, p, seed):
    rs = np.random.RandomState(seed + 3)
    perm = rs.permutation(n)
    A = np.zeros((n, n))
    for a, b in zip(perm, np.roll(perm, -1)):
        A[a, b] = 1
    B = er(n, p, True, seed + 1)
    A = ((A + B) > 0).astype(float)
    np.fill_diagonal(A, 0)
    return A


def planted(n, k, pin, pout, directed, seed):
    rs = np.random.RandomState(seed)
    lab = np.arange(n) % k
    P = np.where(lab[:, None] == lab[None, :], pin, pout)
    A = (rs.rand(n, n) < P).astype(float)
    np.fill_diagonal(A, 0)
    if not directed:
        A = np.triu(A, 1)
        A = A + A.T
    return A


def late_merge(n, seed):
    """two long paths numbered alternately, joined by the highest-numbered
    pair: the row-major edge scan of the component finder merges late."""
    rs = np.random.RandomState(seed)
    A = np.zeros((n, n))
    ev = list(range(0, n, 2))
    od = list(range(1, n, 2))
    for ch in (ev, od):
        for a, b in zip(ch[:-1], ch[1:]):
            A[a, b] = A[b, a] = 1
    if rs.rand() < .7 and len(ev) and len(od):
        a, b = ev[-1], od[-1]
        A[a, b] = A[b, a] = 1
    p = rs.permutation(n) if rs.rand() < .5 else np.arange(n)
    return A[np.ix_(p, p)]


def late_merge_k(n, k, seed):
    """k paths numbered in an interleaved way (node i belongs to path i % k); consecutive paths are joined
    by their highest-numbered nodes, i.e. by the last cells of a row-major scan."""
    rs = np.random.RandomState(seed)
    A = np.zeros((n, n))
    chains = [list(range(c, n, k)) for c in range(k)]
    for ch in chains:
        for a, b in zip(ch[:-1], ch[1:]):
            A[a, b] = A[b, a] = 1
    for c in range(k - 1):
        if chains[c] and chains[c + 1] and rs.rand() < .8:
            a, b = chains[c][-1], chains[c + 1][-1]
            A[a, b] = A[b, a] = 1
    return A


def diamond_chain(k, directed=False):
    """k diamonds in a row: 3k+1 nodes, 2**k equally short paths between the end nodes"""
    n = 3 * k + 1
    A = np.zeros((n, n))
    for d in range(k):
        a, u, v, b = 3 * d, 3 * d + 1, 3 * d + 2, 3 * d + 3
        for x, y in ((a, u), (a, v), (u, b), (v, b)):
            A[x, y] = 1
            if not directed:
                A[y, x] = 1
    return A


def layered(sizes, directed=False):
    """complete connections between consecutive layers: prod(sizes[1:-1]) equally short end-to-end paths"""
    n = sum(sizes)
    A = np.zeros((n, n))
    off = np.cumsum([0] + list(sizes))
    for l in range(len(sizes) - 1):
        for x in range(off[l], off[l + 1]):
            for y in range(off[l + 1], off[l + 2]):
                A[x, y] = 1
                if not directed:
                    A[y, x] = 1
    return A


def blob_chain(k, m, directed=False):
    """a complete graph on k nodes and, separately, a path on m nodes: walk counts grow like (k-1)**m"""
    A = disjoint(complete(k), path(m) if not directed else np.triu(path(m)))
    return A


def dense_out_low_in(n, seed):
    """strongly connected digraph in which every node has out-degree >= n/2 while nodes 0 and 1 have exactly one
    incoming connection each (from nodes 2 and 3): dense by rows, fragile by columns."""
    rs = np.random.RandomState(seed)
    A = (rs.rand(n, n) < .75).astype(float)
    np.fill_diagonal(A, 0)
    A[:, 0] = 0
    A[:, 1] = 0
    A[2, 0] = 1
    A[3, 1] = 1
    for i in range(n):            # top rows up to out-degree >= n/2
        while A[i].sum() < (n + 1) // 2 + 1:
            j = int(rs.randint(2, n))
            if j != i:
                A[i, j] = 1
    A[0, 2:] = 1
    A[1, 2:] = 1
    return A


def late_hub_tree(n, seed):
    """labelled tree aimed at late multi-way merges of a row-major scan: low-numbered leaves hang on
    high-numbered nodes, which are tied together through a few mid-numbered hubs."""
    rs = np.random.RandomState(seed)
    A = np.zeros((n, n))
    nl = max(2, n // 2)            # leaves 0..nl-1
    nh = max(1, (n - nl) // 3)     # hubs nl..nl+nh-1
    late = list(range(nl + nh, n)) or [n - 1]
    hubs = list(range(nl, nl + nh))
    for v in range(nl):
        u = late[rs.randint(len(late))]
        A[v, u] = A[u, v] = 1
    for u in late:
        h = hubs[rs.randint(len(hubs))] if hubs else late[0]
        if h != u:
            A[h, u] = A[u, h] = 1
    for a, b in zip(hubs[:-1], hubs[1:]):
        if rs.rand() < .7:
            A[a, b] = A[b, a] = 1
    return A


def tri_cactus(t, seed=0, relabel=True):
    """t triangles strung together by t-1 connector nodes (each adjacent to one node of two consecutive triangles):
    every connection starts on a triangle or is a bridge-like link, and once rewiring has broken the triangles most
    further swaps cut the graph"""
    rs = np.random.RandomState(seed)
    n = 3 * t + (t - 1)
    A = np.zeros((n, n))
    for i in range(t):
        a = 3 * i
        for u, v in ((a, a + 1), (a + 1, a + 2), (a, a + 2)):
            A[u, v] = A[v, u] = 1
    for i in range(t - 1):
        c = 3 * t + i
        u = 3 * i + rs.randint(3)
        v = 3 * (i + 1) + rs.randint(3)
        A[c, u] = A[u, c] = A[c, v] = A[v, c] = 1
    if relabel:
        p = rs.permutation(n)
        A = A[np.ix_(p, p)]
    return A


def reversed_comb(k):
    """node i joined to node n-1-i (i < k), then the path k .. n-1: with low-index roots a merging structure is driven
    into one long parent chain"""
    n = 2 * k
    A = np.zeros((n, n))
    for i in range(k):
        A[i, n - 1 - i] = A[n - 1 - i, i] = 1
    for i in range(k, n - 1):
        A[i, i + 1] = A[i + 1, i] = 1
    return A


def numbered_path(n, mode, seed=0):
    """a path of n nodes visited in a chosen order of the node numbers: natural, reversed, evens-then-odds,
    bit-reversed, outside-in, random"""
    if mode == 'natural':
        order = np.arange(n)
    elif mode == 'reversed':
        order = np.arange(n)[::-1]
    elif mode == 'evenodd':
        order = np.r_[np.arange(0, n, 2), np.arange(1, n, 2)]
    elif mode == 'outside_in':
        order = np.array([i // 2 if i % 2 == 0 else n - 1 - i // 2 for i in range(n)])
    elif mode == 'bitrev':
        b = max(1, int(np.ceil(np.log2(n))))
        order = np.array(sorted(range(n), key=lambda x: int(format(x, '0%db' % b)[::-1], 2)))
    else:
        order = np.random.RandomState(seed).permutation(n)
    A = np.zeros((n, n))
    A[order[:-1], order[1:]] = 1
    A[order[1:], order[:-1]] = 1
    return A


def hub_graph(n, nh, seed=0):
    """directed sparse background plus nh hubs that send to ~90 % of the nodes and hear back from about half of those"""
    rs = np.random.RandomState(seed)
    A = (rs.rand(n, n) < 2.0 / n).astype(float)
    hubs = rs.choice(n, size=nh, replace=False)
    for h in hubs:
        out = rs.rand(n) < .9
        A[h, out] = 1
        back = out & (rs.rand(n) < .5)
        A[back, h] = 1
    np.fill_diagonal(A, 0)
    return A


NAMED = {
    'tri_cactus': tri_cactus, 'hub_graph': hub_graph, 'reversed_comb': reversed_comb, 'numbered_path': numbered_path,
    'path': path, 'cycle': cycle, 'star': star, 'wheel': wheel, 'complete': complete, 'kab': kab,
    'circulant': circulant, 'hypercube': hypercube, 'grid': grid, 'prufer': prufer_tree,
    'tree_chords': tree_chords, 'barbell': barbell, 'ring_of_cliques': ring_of_cliques,
    'lollipop': lollipop, 'dcycle': dcycle, 'dcycle_chords': dcycle_chords, 'dag': dag,
    'tournament': tournament, 'two_blobs_dir': two_blobs_dir, 'oneway_bridge': oneway_bridge,
    'er_connected': er_connected, 'er_strong': er_strong, 'planted': planted, 'late_merge': late_merge,
    'late_merge_k': late_merge_k, 'late_hub_tree': late_hub_tree, 'diamond_chain': diamond_chain, 'layered': layered, 'blob_chain': blob_chain, 'dense_out_low_in': dense_out_low_in,
}


def build(recipe):
    k = recipe[0]
    if k == 'mask':
        return from_mask(recipe[1], recipe[2], recipe[3])
    if k == 'er':
        return er(recipe[1], recipe[2], recipe[3], recipe[4])
    if k == 'named':
        return NAMED[recipe[1]](*recipe[2:])
    if k == 'lit':
        return np.array(recipe[1], dtype=float)
    if k == 'disjoint':
        return disjoint(*[build(r) for r in recipe[1:]])
    if k == 'iso':
        return with_isolated(build(recipe[1]), recipe[2])
    if k == 'hub':  # add recipe[2] nodes connected to every other node
        A = build(recipe[1])
        n = len(A) + recipe[2]
        B = np.ones((n, n)) - np.eye(n)
        B[:len(A), :len(A)] = A
        return B
    if k == 'perm':  # relabel nodes by a seeded permutation
        A = build(recipe[1])
        p = np.random.RandomState(recipe[2]).permutation(len(A))
        return A[np.ix_(p, p)]
    if k == 'T':
        return build(recipe[1]).T.copy()
    raise ValueError(recipe)


# ---------------------------------------------------------------- weights

def weigh(A, scheme, seed, symmetric):
    """Put weights on the support of the 0/1 matrix A."""
    if scheme == 'bin':
        return A.copy()
    rs = np.random.RandomState(seed)
    n = len(A)
    if scheme == 'real':
        Wt = rs.rand(n, n) * 0.98 + 0.02
    elif scheme == 'int':
        Wt = rs.randint(1, 4, size=(n, n)).astype(float)
    elif scheme == 'dyad':
        Wt = rs.randint(1, 9, size=(n, n)) / 8.0
    elif scheme == 'const':     # every connection carries the same non-unit weight (a rescaled binary network)
        Wt = np.full((n, n), [0.5, 0.125, 3.0][seed % 3])
    elif scheme == 'logu':      # lengths over 12 orders of magnitude (absolute tolerances are meaningless here)
        Wt = 10.0 ** rs.uniform(-12, 0, size=(n, n))
    elif scheme == 'decimal':   # k/10: equal real lengths whose float sums differ in the last bit (rounding-level ties)
        Wt = rs.randint(1, 10, size=(n, n)) / 10.0
    elif scheme == 'absorb':    # one-decimal lengths mixed with lengths so short (1e-17..1e-16) that adding one to the
        Wt = rs.randint(1, 10, size=(n, n)) / 10.0       # rest of a route does not change the float sum at all
        tiny = rs.rand(n, n) < (.3, .75, .9)[seed % 3]
        Wt[tiny] = (rs.randint(1, 10, size=int(tiny.sum())) * 1e-17 if seed % 2 else 10.0 ** rs.uniform(-17, -16, size=int(tiny.sum())))
    elif scheme == 'absorb5':   # five values only, one of them (1e-17) absorbed by every other: masses of exact ties between
        Wt = rs.choice([1e-17, .1, .2, .3, 1.0], size=(n, n))   # routes with different numbers of connections
    elif scheme == 'neartie':   # exactly representable lengths that differ by ~1e-6: near-ties that are not ties
        Wt = rs.randint(1, 4, size=(n, n)) + rs.randint(0, 3, size=(n, n)) * 2.0 ** -20
    elif scheme == 'bigint':    # large integers differing by 1 (relative difference 2e-6)
        Wt = rs.randint(500000, 500003, size=(n, n)).astype(float)
    elif scheme == 'signed':
        Wt = rs.randn(n, n)
        Wt[Wt == 0] = 0.5
    elif scheme == 'signedint':
        Wt = rs.randint(1, 4, size=(n, n)) * rs.choice([-1.0, 1.0], size=(n, n))
    else:
        raise ValueError(scheme)
    if symmetric:
        Wt = np.triu(Wt, 1)
        Wt = Wt + Wt.T
    return A * Wt


def is_symmetric(A):
    return bool(np.array_equal(A, A.T))


def structured_und(nmax, seeds=(0,)):
    """Recipes of structured undirected graphs with at most nmax nodes."""
    out = []
    for n in range(3, nmax + 1):
        out += [['named', 'path', n], ['named', 'cycle', n], ['named', 'star', n], ['named', 'complete', n]]
        if n >= 4:
            out.append(['named', 'wheel', n])
        if n >= 5:
            out.append(['named', 'circulant', n, [1, 2]])
    for a in range(1, nmax):
        for b in range(a, nmax - a + 1):
            if a + b >= 3 and a + b <= nmax and (a, b) != (1, 1):
                out.append(['named', 'kab', a, b])
    for d in (2, 3, 4):
        if 2 ** d <= nmax:
            out.append(['named', 'hypercube', d])
    for r, c in ((2, 3), (3, 3), (2, 4), (3, 4), (4, 4)):
        if r * c <= nmax:
            out.append(['named', 'grid', r, c])
    for k, b in ((3, 1), (3, 2), (4, 1), (4, 3), (5, 1)):
        if 2 * k + b - 1 <= nmax:
            out.append(['named', 'barbell', k, b])
    for m, k in ((3, 3), (4, 3), (3, 4), (5, 3)):
        if m * k <= nmax:
            out.append(['named', 'ring_of_cliques', m, k])
    for k, t in ((3, 2), (4, 3), (5, 4)):
        if k + t <= nmax:
            out.append(['named', 'lollipop', k, t])
    for s in seeds:
        for n in (5, 8, 11):
            if n <= nmax:
                out.append(['named', 'prufer', n, s])
                out.append(['named', 'tree_chords', n, 2, s])
    # disjoint unions and isolated nodes
    if nmax >= 6:
        out.append(['disjoint', ['named', 'cycle', 3], ['named', 'cycle', 3]])
        out.append(['iso', ['named', 'cycle', 4], 2])
    if nmax >= 8:
        out.append(['disjoint', ['named', 'cycle', 4], ['named', 'cycle', 4]])
        out.append(['disjoint', ['named', 'path', 3], ['named', 'complete', 4]])
        out.append(['iso', ['named', 'star', 5], 3])
    if nmax >= 10:
        out.append(['disjoint', ['named', 'kab', 2, 3], ['named', 'kab', 2, 3]])
    return out


def many_paths(nmax):
    """graphs with 2**8 .. 2**32 equally short paths between two nodes (counter overflow / precision traps)"""
    out = []
    for k in (8, 9, 16, 17, 32, 64):
        if 3 * k + 1 <= nmax:
            out += [['named', 'diamond_chain', k, False], ['named', 'diamond_chain', k, True]]
    for sizes in ([1, 16, 16, 1], [1, 4, 4, 4, 4, 1], [1, 2, 8, 16, 1], [1, 16, 16, 16, 16, 1], [1] + [2] * 32 + [1], [1] + [2] * 64 + [1]):
        if sum(sizes) <= nmax:
            out += [['named', 'layered', sizes, False], ['named', 'layered', sizes, True]]
    return out


def blob_chains(nmax):
    out = []
    for k, m in ((20, 34), (12, 40), (8, 80), (20, 250), (30, 215)):
        if k + m <= nmax:
            out.append(['named', 'blob_chain', k, m, False])
    return out


def structured_dir(nmax, seeds=(0,)):
    out = []
    for n in range(3, nmax + 1):
        out.append(['named', 'dcycle', n])
    for s in seeds:
        for n in (4, 6, 9, 12):
            if n <= nmax:
                out += [['named', 'dcycle_chords', n, 2, s], ['named', 'dag', n, 0.4, s],
                        ['named', 'tournament', n, s]]
        for k in (3, 4, 6):
            if 2 * k <= nmax:
                out += [['named', 'two_blobs_dir', k, s], ['named', 'oneway_bridge', k, s]]
    return out


# ---------------------------------------------------------------- partitions

def set_partitions(n):
    """All set partitions of range(n) as canonical label vectors (restricted growth strings)."""
    def rec(prefix, m):
        if len(prefix) == n:
            yield list(prefix)
            return
        for v in range(m + 2):
            prefix.append(v)
            for x in rec(prefix, max(m, v)):
                yield x
            prefix.pop()
    if n == 0:
        return [[]]
    return [[x + 1 for x in p] for p in rec([0], 0)]


def all_perms(n):
    return list(itertools.permutations(range(n)))
