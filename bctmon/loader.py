"""Import ``bct`` from the working tree under test.

Every check, worker and replay goes through :func:`load`; nothing is cached
between runs and no bytecode is written into the repository.
"""
import os
import sys
import warnings

REPO = os.path.realpath(os.environ.get('BCT_REPO', '/repo'))
_bct = None


def load():
    global _bct
    if _bct is not None:
        return _bct
    sys.dont_write_bytecode = True
    # make sure the tree under test wins over any installed copy
    sys.path[:] = [p for p in sys.path if os.path.realpath(p or '.') != REPO]
    sys.path.insert(0, REPO)
    warnings.simplefilter('ignore')
    import numpy as np
    np.seterr(all='ignore')
    import bct
    here = os.path.realpath(bct.__file__)
    if not here.startswith(REPO + os.sep):
        raise RuntimeError('bct imported from %s, expected under %s' % (here, REPO))
    _bct = bct
    return bct


def git_head():
    import subprocess
    try:
        return subprocess.run(['git', '-C', REPO, 'rev-parse', 'HEAD'], capture_output=True,
                              text=True, timeout=10).stdout.strip()
    except Exception:
        return ''
