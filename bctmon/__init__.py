"""bctmon -- runtime monitors for the 20 semantic properties of bctpy.

The code under test is always imported from $BCT_REPO (default /repo), never
from an installed copy; see loader.load().
"""
