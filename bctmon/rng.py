"""The RNG is the scheduler of bctpy: which edge pair is tried next, in which
order Louvain visits the nodes.  ``get_rng`` passes a RandomState *instance*
through unchanged, so injected schedules need no hook in the repository.

SpyRandomState(seed)       -- exactly the stream of RandomState(seed), every
                              draw logged (the "schedule" of a call).
HostileRandomState(policy) -- valid but adversarial draws with full support:
                              indices skewed low / high / sticky, skewed
                              coins, structured permutations.
"""
import hashlib

import numpy as np


def _short(v):
    a = np.asarray(v)
    if a.ndim == 0:
        return a.item()
    if a.size <= 16:
        return a.tolist()
    return ['arr', list(a.shape), hashlib.blake2b(np.ascontiguousarray(a).tobytes(), digest_size=6).hexdigest()]


class _LogMixin(object):
    """Records (method, args, value) of every draw; keeps a rolling digest."""

    def _init_log(self, keep):
        self.keep = keep
        self.log = []
        self.ndraws = 0
        self.by_method = {}
        self._h = hashlib.blake2b(digest_size=8)

    def _rec(self, meth, args, val):
        self.ndraws += 1
        self.by_method[meth] = self.by_method.get(meth, 0) + 1
        a = np.asarray(val)
        self._h.update(meth.encode())
        self._h.update(np.ascontiguousarray(a).tobytes())
        if self.keep:
            self.log.append((meth, args, np.array(val, copy=True)))

    def schedule_hash(self):
        return self._h.hexdigest()


class SpyRandomState(np.random.RandomState, _LogMixin):
    def __init__(self, seed=None, keep=False):
        np.random.RandomState.__init__(self, seed)
        self._init_log(keep)
        self.descr = {'kind': 'spy', 'seed': seed if isinstance(seed, (int, type(None))) else repr(seed)}

    def randint(self, *a, **k):
        v = np.random.RandomState.randint(self, *a, **k)
        self._rec('randint', (a, k), v)
        return v

    def random_sample(self, *a, **k):
        v = np.random.RandomState.random_sample(self, *a, **k)
        self._rec('random_sample', (a, k), v)
        return v

    def rand(self, *a):
        v = np.random.RandomState.rand(self, *a)
        self._rec('rand', (a, {}), v)
        return v

    def permutation(self, x):
        v = np.random.RandomState.permutation(self, x)
        self._rec('permutation', ((_short(x),), {}), v)
        return v

    def choice(self, *a, **k):
        v = np.random.RandomState.choice(self, *a, **k)
        self._rec('choice', ((), {}), v)
        return v


IDX_POLICIES = ('uniform', 'low', 'high', 'sticky')
COIN_POLICIES = ('uniform', 'lo', 'hi')
PERM_POLICIES = ('uniform', 'identity', 'reverse', 'rotate', 'swap01')

# named combinations used by the workloads
POLICIES = {
    'low': ('low', 'uniform', 'identity'),
    'high': ('high', 'uniform', 'reverse'),
    'sticky': ('sticky', 'uniform', 'rotate'),
    'coinlo': ('uniform', 'lo', 'uniform'),
    'coinhi': ('uniform', 'hi', 'swap01'),
    'lowhi': ('low', 'hi', 'reverse'),
    'stickylo': ('sticky', 'lo', 'identity'),
    'ident': ('uniform', 'uniform', 'identity'),
    'rev': ('uniform', 'uniform', 'reverse'),
    # the scheduler as an adversary with patience: the first 24 000 index draws alternate between the two lowest values
    # (in a rewiring loop: the same two connection records, usually sharing a node, over and over), then the stream is
    # uniform.  A rejection loop that is unbounded just takes some 12 000 rounds longer; one with a draw budget runs out.
    'stall': ('stall', 'uniform', 'uniform'),
}
STALL_DRAWS = 24000


class HostileRandomState(np.random.RandomState, _LogMixin):
    """Valid draws from adversarial full-support distributions.

    Every value returned is inside the requested range / is a true
    permutation, and every value of the range keeps positive probability
    (a fraction ``mix`` of the draws is plain uniform), so the library's
    rejection loops still terminate with probability one.
    """

    def __init__(self, policy='low', seed=0, mix=0.25, keep=False):
        np.random.RandomState.__init__(self, seed)
        self._init_log(keep)
        self.policy = policy
        self.idx, self.coin, self.perm = POLICIES[policy]
        self.mix = mix
        self._last = {}
        self._rot = 0
        self.descr = {'kind': 'hostile', 'policy': policy, 'seed': seed}

    # raw uniform helpers that bypass our own overrides
    def _u(self, size=None):
        return np.random.RandomState.random_sample(self, size)

    def _ri(self, low, high, size=None):
        return np.random.RandomState.randint(self, low, high, size)

    def _one_index(self, low, high):
        span = high - low
        if span <= 1:
            return low
        if self.idx == 'stall':
            self._stalled = getattr(self, '_stalled', 0) + 1
            if self._stalled <= STALL_DRAWS:
                return low + (self._stalled % 2)
            v = int(self._ri(low, high))
        elif self.idx == 'uniform' or self._u() < self.mix:
            v = int(self._ri(low, high))
        elif self.idx == 'low':
            v = low + int(self._ri(0, min(span, 3)))
        elif self.idx == 'high':
            v = high - 1 - int(self._ri(0, min(span, 3)))
        else:  # sticky: repeat one of the last two values when still in range
            prev = [p for p in self._last.get((low, high), []) if low <= p < high]
            if prev:
                v = prev[int(self._ri(0, len(prev)))]
            else:
                v = int(self._ri(low, high))
        lst = self._last.setdefault((low, high), [])
        lst.append(v)
        del lst[:-2]
        return v

    def randint(self, low, high=None, size=None, dtype=int):
        if high is None:
            low, high = 0, low
        low, high = int(low), int(high)
        if high <= low:
            raise ValueError('low >= high')
        if size is None:
            v = self._one_index(low, high)
            out = np.int64(v) if high < 2 ** 62 else v
        else:
            cnt = int(np.prod(size))
            out = np.array([self._one_index(low, high) for _ in range(cnt)], dtype=np.int64).reshape(size)
        self._rec('randint', ((low, high, size), {}), out)
        return out

    def _skew(self, u):
        if self.coin == 'lo':
            return u ** 3
        if self.coin == 'hi':
            return 1.0 - u ** 3
        return u

    def random_sample(self, size=None):
        u = self._u(size)
        v = self._skew(u)
        if size is None:
            v = float(min(max(v, 0.0), np.nextafter(1.0, 0.0)))
        else:
            v = np.clip(v, 0.0, np.nextafter(1.0, 0.0))
        self._rec('random_sample', ((size,), {}), v)
        return v

    def rand(self, *shape):
        if not shape:
            return self.random_sample()
        return self.random_sample(tuple(shape))

    def permutation(self, x):
        if isinstance(x, (int, np.integer)):
            base = np.arange(int(x))
        else:
            base = np.array(x, copy=True)
        n = len(base)
        if n <= 1 or self.perm == 'uniform' or self._u() < self.mix:
            order = np.random.RandomState.permutation(self, n)
        elif self.perm == 'identity':
            order = np.arange(n)
        elif self.perm == 'reverse':
            order = np.arange(n)[::-1].copy()
        elif self.perm == 'rotate':
            self._rot += 1
            order = np.roll(np.arange(n), self._rot % n)
        else:  # swap01
            order = np.arange(n)
            order[[0, 1]] = order[[1, 0]]
        out = base[order]
        self._rec('permutation', ((_short(x),), {}), out)
        return out

    def choice(self, a, size=None, replace=True, p=None):
        v = np.random.RandomState.choice(self, a, size, replace, p)
        self._rec('choice', ((), {}), v)
        return v


def make_rng(descr, keep=False):
    """Build an rng (or plain seed) from a JSON descriptor.

    {'kind':'int','seed':s} -> s itself;  {'kind':'spy','seed':s};
    {'kind':'hostile','policy':p,'seed':s};  {'kind':'rs','seed':s} -> RandomState(s)
    """
    k = descr['kind']
    if k == 'int':
        return descr['seed']
    if k == 'rs':
        return np.random.RandomState(descr['seed'])
    if k == 'spy':
        return SpyRandomState(descr['seed'], keep=keep)
    if k == 'hostile':
        return HostileRandomState(descr['policy'], descr['seed'], keep=keep)
    raise ValueError(k)
