"""pytest plugin: run the repository's own test-suite under the universal monitors (C13, C05).

  cd $BCT_REPO && BCTMON_DUMP=<file> python -m pytest -p bctmon.pytest_plugin test

Only monitor events count; which tests pass or fail is irrelevant here.
"""
import json
import os


def pytest_configure(config):
    from . import loader, monitor
    bct = loader.load()
    monitor.install(bct)
    monitor.REC.reset()
    monitor.REC.prop = 'repo-tests'


def pytest_runtest_setup(item):
    from . import monitor
    monitor.REC.case = {'kind': 'repo_test', 'nodeid': item.nodeid}
    monitor._tls.depth = 0


def pytest_sessionfinish(session, exitstatus):
    from . import monitor
    out = os.environ.get('BCTMON_DUMP')
    if out:
        with open(out, 'w') as f:
            json.dump(monitor.REC.dump(), f)
