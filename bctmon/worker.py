"""One shard of one property's workload, in its own process.

usage: python -m bctmon.worker PROP TIER SEED SHARD NSHARDS OUTFILE [CASE_TIMEOUT]
"""
import importlib
import json
import os
import sys
import time
import traceback


def run_shard(prop, tier, seed, shard, nshards, outfile, case_timeout):
    from . import loader, monitor
    bct = loader.load()
    import numpy as np
    monitor.install(bct)
    # a hostile but legitimate process environment: arrays print abbreviated from 5 entries on (anything keyed by the
    # printed form of an array now collides on small inputs instead of beyond 1000 entries)
    np.set_printoptions(threshold=4, edgeitems=1, precision=2)
    mod = importlib.import_module('bctmon.props.' + prop)
    REC = monitor.REC
    REC.reset()
    REC.prop = prop
    cov = monitor.Coverage()
    anchors = {n: getattr(bct, n) for n in getattr(mod, 'ANCHORS', []) if hasattr(bct, n)}
    if anchors:
        cov.start(anchors)
    cases = mod.cases(tier, seed)
    mine = cases[shard::nshards]
    done = 0
    t0 = time.time()
    devnull = open(os.devnull, 'w')
    real_stdout = sys.stdout
    sys.stdout = devnull  # many bct functions print
    class _Term(BaseException):
        pass

    def _term(signum, frame):
        raise _Term()
    import signal
    import faulthandler
    faulthandler.register(signal.SIGUSR1, file=sys.stderr, all_threads=True)   # `kill -USR1 <worker>` shows where it is
    signal.signal(signal.SIGTERM, _term)
    tmo_by_f = {}
    terminated = False
    try:
        for case in mine:
            REC.case = case
            fkey = case.get('f', case.get('kind', '?'))
            if tmo_by_f.get(fkey, 0) >= 3:
                # this routine keeps hanging in this shard: do not burn the budget on it
                REC.timeouts += 1
                REC.tag(prop, 'skipped_after_timeouts:%s' % fkey)
                done += 1
                continue
            np.random.seed((seed * 1000003 + done * 7919 + shard) % (2 ** 32))
            try:
                monitor.arm(case_timeout)
                mod.run(case, bct, REC)
                monitor.disarm()
            except monitor.CaseTimeout:
                monitor.disarm()
                monitor._tls.depth = 0
                REC.timeouts += 1
                tmo_by_f[fkey] = tmo_by_f.get(fkey, 0) + 1
                REC.tag(prop, 'timeout:%s' % fkey)
            except Exception:
                monitor.disarm()
                monitor._tls.depth = 0
                REC.case_errors.append({'case': case, 'trace': traceback.format_exc()[-1500:]})
            done += 1
    except _Term:
        terminated = True
        monitor.disarm()
    finally:
        sys.stdout = real_stdout
    if monitor.history.ENABLED:
        for k, v in monitor.history.HIST.stats.items():
            REC.tag(prop, 'history:' + k, v)
        for (g, f), v in monitor.history.HIST.siblings_seen.items():
            REC.tag(prop, 'history:sibling:%s->%s' % (g, f), v)
    out = REC.dump()
    out.update({'ncases_total': len(cases), 'ncases_shard': len(mine), 'done': done,
                'wall_s': time.time() - t0, 'coverage': cov.report(), 'terminated': terminated})
    cov.stop()
    with open(outfile, 'w') as f:
        json.dump(out, f)


if __name__ == '__main__':
    a = sys.argv[1:]
    run_shard(a[0], a[1], int(a[2]), int(a[3]), int(a[4]), a[5], float(a[6]) if len(a) > 6 else 20.0)
