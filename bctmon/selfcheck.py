"""Framework self-check run by setup_cmd: the code under test is importable
from the working tree, monitors install, the schedulers behave."""
import sys


def main():
    from . import loader, monitor, rng
    import numpy as np
    bct = loader.load()
    inst = monitor.install(bct)
    assert len(inst) > 100, len(inst)
    # Spy reproduces the integer-seed stream
    a = np.random.RandomState(5)
    b = rng.SpyRandomState(5)
    assert a.randint(100) == b.randint(100) and np.array_equal(a.permutation(7), b.permutation(7))
    assert a.random_sample() == b.random_sample() and b.ndraws == 3
    # Hostile draws are valid
    for pol in rng.POLICIES:
        h = rng.HostileRandomState(pol, 1)
        if pol == 'stall':      # valid draws throughout, full support only after its patience has run out
            assert all(0 <= h.randint(7) < 7 for _ in range(rng.STALL_DRAWS + 10))
        for _ in range(200):
            v = h.randint(7)
            assert 0 <= v < 7
            u = h.random_sample()
            assert 0.0 <= u < 1.0
            p = h.permutation(6)
            assert sorted(p.tolist()) == list(range(6))
        assert set(int(h.randint(4)) for _ in range(400)) == {0, 1, 2, 3}, pol
    print('bctmon selfcheck ok: %d public functions wrapped, tree %s' % (len(inst), loader.REPO))


if __name__ == '__main__':
    main()
