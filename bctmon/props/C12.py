"""C12 -- every path the library returns is a real path with the reported length."""
import numpy as np

from .. import graphs as G
from .. import oracles as O
from .common import call

PROP = 'C12'
ANCHORS = ['distance_wei_floyd', 'retrieve_shortest_path', 'navigation_wu']
RULE = ('one execution = distance_wei_floyd + retrieve_shortest_path for ALL ordered pairs (s,t) of one matrix and one '
        'transform, every returned node sequence validated edge by edge against the input; or one navigation_wu call '
        'with every returned path validated against L and D; inputs: all small directed/undirected graphs with unit '
        'and tied integer lengths, random graphs, each transform; navigation on geometric layouts, adversarial D, '
        'disconnected L, max_hops in {None,1,2,n}; non-trivial = some returned path has >= 2 hops (navigation: at '
        'least one failed and one successful pair in the same network)')
EXHAUSTIVE = {'quick': 'all labelled undirected graphs on <=5 nodes and directed graphs on <=3 nodes, all (s,t)',
              'thorough': 'all labelled undirected graphs on <=6 nodes and directed graphs on <=4 nodes, all (s,t)'}
ASSUMPTIONS = ['the greedy choice rule and the exact max_hops cut-off are mechanism and are not asserted',
               'navigation_wu gets an undirected L; with a tie-free D it terminates, otherwise max_hops is passed',
               'the path length is compared with the reported SPL of the same call (rtol 1e-12) and with the oracle distance']
REQUIRED = ['retrieve_shortest_path/paths_valid', 'retrieve_shortest_path/empty_iff_unreachable',
            'navigation_wu/paths_valid', 'navigation_wu/failed_is_infinite', 'navigation_wu/success_ratio',
            'navigation_wu/infinite_diagonal']
CASE_TIMEOUT = {'quick': 30.0, 'thorough': 120.0}


def cases(tier, seed):
    thorough = tier == 'thorough'
    out = []
    un = 6 if thorough else 5
    dn = 4 if thorough else 3
    for n in range(2, un + 1):
        for bits in G.all_masks(n, False):
            out.append({'kind': 'sp', 'g': ['mask', n, bits, False], 'directed': False, 'ws': bits % 1000, 'schemes': ['bin', 'int']})
    for n in range(2, dn + 1):
        for bits in G.all_masks(n, True):
            out.append({'kind': 'sp', 'g': ['mask', n, bits, True], 'directed': True, 'ws': bits % 1000, 'schemes': ['bin', 'int']})
    nmax = 30 if thorough else 12
    rs = np.random.RandomState(seed + 1212)
    recs = [(g, False) for g in G.structured_und(min(nmax, 14), seeds=(seed,))] + \
           [(g, True) for g in G.structured_dir(min(nmax, 12), seeds=(seed,))]
    for t in range(120 if thorough else 30):
        n = int(rs.randint(4, nmax + 1))
        d = bool(rs.rand() < .5)
        recs.append((['er', n, float(rs.choice([.1, .2, .3, .5])), d, int(rs.randint(1 << 30))], d))
    for i, (g, d) in enumerate(recs):
        out.append({'kind': 'sp', 'g': g, 'directed': d, 'ws': seed * 100 + i, 'schemes': ['bin', 'int', 'dyad', 'real', 'logu', 'const']})
    # equal-length alternatives are where hops and Pmat can drift apart: many dense graphs with tied lengths
    for t in range(4000 if thorough else 800):
        n = int(rs.randint(5, 13))
        d = bool(t % 2)
        out.append({'kind': 'sp', 'g': ['er', n, float(rs.choice([.3, .5, .7, .9])), d, int(rs.randint(1 << 30))], 'directed': d,
                    'ws': seed * 1000 + t, 'schemes': ['int', 'dyad', 'decimal'] if t % 2 else ['decimal']})
    # the same with 20-40 nodes (longer routes: a Pmat route may have several more connections than any counted one)
    for t in range(12000 if thorough else 1500):
        n = int(rs.randint(20, 41))
        d = bool(t % 2)
        out.append({'kind': 'sp', 'g': ['er', n, float(rs.choice([.1, .15, .25, .4])), d, int(rs.randint(1 << 30))], 'directed': d,
                    'ws': seed * 1000 + t, 'schemes': ['decimal'], 'big': True})
    # lengths that are absorbed in a float sum (1e-17 next to 0.5): exact ties between routes with different numbers
    # of connections, and sums that do not grow along a route
    for t in range(20000 if thorough else 1000):
        n = int(rs.randint(6, 13))
        d = bool(t % 2)
        out.append({'kind': 'sp', 'g': ['er', n, float(rs.choice([.25, .4, .6])), d, int(rs.randint(1 << 30))], 'directed': d,
                    'ws': seed * 1000 + t, 'schemes': ['absorb']})
    # ... and the five-value mix on 26-40 nodes, where routes are long enough for a stale count to be inherited (measured:
    # a one-pass recount of hops is wrong on ~10 % of these graphs, on < 0.3 % of the 6-16 node ones)
    for t in range(1500 if thorough else 300):
        n = int(rs.randint(26, 41))
        d = bool(t % 2)
        out.append({'kind': 'sp', 'g': ['er', n, float(rs.choice([.15, .3])), d, int(rs.randint(1 << 30))], 'directed': d,
                    'ws': seed * 1000 + t, 'schemes': ['absorb5'], 'big': True})
    # navigation
    for t in range(200 if thorough else 60):
        n = int(rs.randint(4, nmax + 1))
        out.append({'kind': 'nav', 'n': n, 'p': float(rs.choice([.15, .25, .4, .7])), 'gs': int(rs.randint(1 << 30)),
                    'dk': ['euclid', 'infedges', 'adversarial', 'intties', 'hopdist', 'euclid', 'infedges'][t % 7], 'w': ['bin', 'real', 'int'][t % 3],
                    'disc': t % 5 in (0, 4), 'dirL': t % 7 == 3})
    for g in G.structured_und(9, seeds=(seed,)):
        out.append({'kind': 'nav', 'g': g, 'gs': seed, 'dk': 'euclid', 'w': 'bin', 'disc': False})
    return out


def RAW_RETRIEVE(bct):
    from ..monitor import raw
    return raw(bct.retrieve_shortest_path)


def run_sp(case, bct, REC):
    A = G.build(case['g'])
    directed = case['directed']
    n = len(A)
    for sc in case['schemes']:
        L = G.weigh(A, sc, case['ws'], symmetric=not directed)
        trs = [None] if sc in ('bin', 'int') else [None, 'inv', 'log']
        if sc == 'decimal':
            trs = [None, 'inv']
        if sc in ('logu', 'absorb') or case.get('big'):
            trs = [None]
        if 'log' in trs and L.max() > 1:   # the log transform is documented for weights in (0,1]
            trs = [t for t in trs if t != 'log']
        # integer lengths are naturally held in integer arrays: the same values, same demands (also under 'inv',
        # where the result cannot be held in the input's dtype)
        variants = [(tr, None) for tr in trs]
        if sc == 'int' and not case.get('big') and n <= 12:
            variants += [('inv', None), (None, np.int64), ('inv', np.int64), ('inv', np.int32)]
        for tr, dt in variants:
            REC.tag(PROP, 'exec')
            with np.errstate(all='ignore'):
                if tr is None:
                    E = np.where(A != 0, L, np.inf)
                elif tr == 'inv':
                    E = np.where(A != 0, 1.0 / np.where(A != 0, L, 1), np.inf)
                else:
                    E = np.where(A != 0, -np.log(np.where(A != 0, L, 1)), np.inf)
            D = O.floyd(E, absent_is_zero=False)
            ok, res = call(REC, PROP, 'distance_wei_floyd', bct.distance_wei_floyd, L if dt is None else L.astype(dt), transform=tr)
            if not ok:
                continue
            if dt is not None:
                REC.tag(PROP, 'class:integer_dtype')
            SPL, hops, Pmat = res
            bad = None
            bad_empty = None
            multi = False
            for s in range(n):
                for t in range(n):
                    if s == t:
                        continue
                    try:
                        # the boundary monitors watch the first pairs of every matrix; the bulk goes straight in
                        p = (bct.retrieve_shortest_path if s * n + t < 60 else RAW_RETRIEVE(bct))(s, t, hops, Pmat)
                    except Exception as e:  # noqa
                        bad = bad or {'s': s, 't': t, 'exception': repr(e)[:200]}
                        continue
                    seq = [int(x) for x in np.asarray(p).reshape(-1)]
                    if not np.isfinite(D[s, t]):
                        if len(seq) != 0:
                            bad_empty = bad_empty or {'s': s, 't': t, 'path': seq, 'why': 'non-empty path to unreachable target'}
                        continue
                    if len(seq) == 0:
                        bad_empty = bad_empty or {'s': s, 't': t, 'path': seq, 'why': 'empty path to reachable target'}
                        continue
                    why = None
                    if seq[0] != s or seq[-1] != t:
                        why = 'endpoints'
                    elif len(seq) != int(hops[s, t]) + 1:
                        why = 'hop count differs from reported hops'
                    elif any(not (0 <= a < n and 0 <= b < n) or not np.isfinite(E[a, b]) or a == b for a, b in zip(seq[:-1], seq[1:])):
                        why = 'step along a missing connection'
                    else:
                        tot = sum(E[a, b] for a, b in zip(seq[:-1], seq[1:]))
                        if not np.isclose(tot, SPL[s, t], rtol=1e-12, atol=0):
                            why = 'total length %r differs from reported %r' % (tot, SPL[s, t])
                        elif not np.isclose(tot, D[s, t], rtol=1e-9, atol=0):
                            why = 'total length %r is not the minimum %r' % (tot, D[s, t])
                    if why:
                        bad = bad or {'s': s, 't': t, 'path': seq, 'why': why}
                    if len(seq) >= 3:
                        multi = True
            det = {'L': L, 'transform': tr, 'dtype': 'float64' if dt is None else np.dtype(dt).name}
            # input class: a zero-length connection (weight exactly 1 under the log transform)
            # or: some pair has minimum-length routes with different hop counts (ties, incl. rounding-level ties)
            if dt is not None:
                cls = ('integer_dtype',)
            elif bool(np.any(E[np.isfinite(E)] == 0)):
                cls = ('zero_length_edge',)
            elif case.get('big'):
                cls = ('one_decimal_20_to_40_nodes',) if sc == 'decimal' else ('absorbed_lengths_26_to_40_nodes',)
            elif sc == 'absorb':
                cls = ('absorbed_lengths',)
            else:
                Hs = O.hop_sets(E, D, rtol=1e-9, absent_is_zero=False)
                tie = any(len(Hs[a][b]) > 1 for a in range(n) for b in range(n) if a != b)
                cls = ('tied_routes_with_different_hops',) if tie else ('unique_hop_counts',)
            REC.tag(PROP, 'class:' + cls[0])
            REC.check(PROP, 'retrieve_shortest_path', 'paths_valid', bad is None, dict(det, first_bad=bad), cls)
            REC.check(PROP, 'retrieve_shortest_path', 'empty_iff_unreachable', bad_empty is None, dict(det, first_bad=bad_empty), cls)
            if multi:
                REC.note_nontrivial(PROP, 'sp', L, tr)
    if n <= 5:
        REC.sample(PROP, {'kind': 'sp', 'A': A, 'schemes': case['schemes']}, cap=3)


def nav_inputs(case):
    rs = np.random.RandomState(case['gs'])
    if 'g' in case:
        A = G.build(case['g'])
        n = len(A)
    else:
        n = case['n']
        A = G.er(n, case['p'], False, case['gs'])
        if not case['disc']:
            A = ((A + G.prufer_tree(n, case['gs'])) > 0).astype(float)
    if case.get('dirL'):
        A = G.er(len(A), .3, True, case['gs'] + 5)
    L = G.weigh(A, case['w'], case['gs'], symmetric=not case.get('dirL'))
    pts = rs.rand(n, 2)
    if case['dk'] == 'euclid':
        D = np.sqrt(((pts[:, None, :] - pts[None, :, :]) ** 2).sum(-1))
    elif case['dk'] == 'infedges':    # euclidean, but infinitely far apart across a third of the existing connections
        D = np.sqrt(((pts[:, None, :] - pts[None, :, :]) ** 2).sum(-1))
        m = np.triu((L != 0) | (L.T != 0), 1) & (rs.rand(n, n) < .35)
        D[m | m.T] = np.inf
    elif case['dk'] == 'adversarial':
        D = rs.rand(n, n)
        D = np.triu(D, 1)
        D = D + D.T
    elif case['dk'] == 'hopdist':   # topological distance as the nodal distance: inf between components
        from .. import oracles as OO
        D = OO.floyd((L != 0).astype(float))
    else:
        D = rs.randint(1, 4, size=(n, n)).astype(float)
        D = np.triu(D, 1)
        D = D + D.T
    return L, D


def run_nav(case, bct, REC):
    L, D = nav_inputs(case)
    n = len(L)
    ties = case['dk'] in ('intties', 'hopdist') or bool(case.get('dirL'))
    mhs = [n, 1, 2] if ties else [None, 1, 2, n]
    for mh in mhs:
        REC.tag(PROP, 'exec')
        ok, res = call(REC, PROP, 'navigation_wu', bct.navigation_wu, L, D, max_hops=mh)
        if not ok:
            continue
        sr, PLb, PLw, PLd, paths = res
        PLb, PLw, PLd = np.asarray(PLb), np.asarray(PLw), np.asarray(PLd)
        det = {'L': L, 'D': D, 'max_hops': mh}
        bad = None
        bad_inf = None
        nfail = 0
        nsucc = 0
        for i in range(n):
            for j in range(n):
                if i == j:
                    continue
                b, w, d = PLb[i, j], PLw[i, j], PLd[i, j]
                if np.isinf(b) or np.isinf(w):      # (a nodal distance may be infinite on a connection that is walked:
                    nfail += 1                      #  PL_dis alone does not say that the navigation failed)
                    if not (np.isinf(b) and np.isinf(w) and np.isinf(d)):
                        bad_inf = bad_inf or {'i': i, 'j': j, 'PL': [b, w, d]}
                    # the stored partial path of a failed navigation is still a walk from i along existing connections
                    seq = [int(x) for x in paths.get((i, j), [i])]
                    if not seq or seq[0] != i or any(L[a, c] == 0 for a, c in zip(seq[:-1], seq[1:])):
                        bad = bad or {'i': i, 'j': j, 'path': seq, 'why': 'failed navigation: stored path is not a walk along existing connections'}
                    continue
                nsucc += 1
                seq = [int(x) for x in paths.get((i, j), [])]
                why = None
                if not seq or seq[0] != i or seq[-1] != j:
                    why = 'endpoints'
                elif any(L[a, c] == 0 for a, c in zip(seq[:-1], seq[1:])):
                    why = 'step along a missing connection'
                elif len(seq) - 1 != b:
                    why = 'hop count %d differs from PL_bin %r' % (len(seq) - 1, b)
                elif not np.isclose(sum(L[a, c] for a, c in zip(seq[:-1], seq[1:])), w, rtol=1e-12):
                    why = 'sum of lengths differs from PL_wei'
                elif not np.isclose(sum(D[a, c] for a, c in zip(seq[:-1], seq[1:])), d, rtol=1e-12):
                    why = 'sum of distances differs from PL_dis'
                if why:
                    bad = bad or {'i': i, 'j': j, 'path': seq, 'why': why, 'PL': [b, w, d]}
        REC.check(PROP, 'navigation_wu', 'paths_valid', bad is None, dict(det, first_bad=bad))
        REC.check(PROP, 'navigation_wu', 'failed_is_infinite', bad_inf is None, dict(det, first_bad=bad_inf))
        REC.check(PROP, 'navigation_wu', 'infinite_diagonal',
                  bool(np.all(np.isinf(np.diag(PLb))) and np.all(np.isinf(np.diag(PLw))) and np.all(np.isinf(np.diag(PLd)))), det)
        exp = nsucc / float(n * n - n)
        REC.check(PROP, 'navigation_wu', 'success_ratio', bool(np.isclose(sr, exp, rtol=1e-12, atol=1e-15)), dict(det, got=sr, expected=exp))
        if nfail and nsucc:
            REC.note_nontrivial(PROP, 'nav', L, D, mh)
            REC.tag(PROP, 'nav:mixed_success_and_failure')
    if n <= 6:
        REC.sample(PROP, {'kind': 'nav', 'L': L, 'D': D}, cap=3)


def run(case, bct, REC):
    if case['kind'] == 'sp':
        run_sp(case, bct, REC)
    else:
        run_nav(case, bct, REC)
