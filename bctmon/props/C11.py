"""C11 -- constrained rewiring honours connectivity, lattice cost and forbidden cells."""
import numpy as np

from .. import graphs as G
from .. import oracles as O
from .. import rng as rngmod
from . import rewire as RW
from .common import two_disjoint_edges
from .C01 import feasible_mask, has_valid_swap, count_valid_swaps

PROP = 'C11'
ANCHORS = sorted(RW.CONN | RW.LAT | {'randomize_graph_partial_und'})
RULE = ('one execution = one depth-0 call of a constrained rewiring routine; inputs are sparse (strongly) connected '
        'networks where most degree-preserving swaps disconnect (trees + chords, cycles, rings of cliques, barbells, '
        'directed cycles + chords, two blobs joined by one edge each way), random sparse connected graphs, each with an '
        'enumerated hostility index (fraction of valid swaps that disconnect); D in {default (captured from the running '
        'frame), ring, random symmetric, random integer, constant, asymmetric for directed}; masks with and without '
        'overlap of the support; Spy + Hostile schedules; chains of single-iteration *_connected calls with connectivity '
        'checked at every link; negative cases (disconnected / asymmetric input) must raise BCTParamError. '
        'non-trivial = hostility > 0.3 (connected routines) and >= 1 accepted swap')
EXHAUSTIVE = {}
ASSUMPTIONS = ['directed "connected" means strongly connected (docstring: every node reaches every other node)',
               'undirected latticisers get a symmetric D', 'inputs have two vertex-disjoint edges',
               'the default D is read from the returning frame with sys.monitoring; if the local is absent the cost '
               'clause is skipped for default-D calls']
REQUIRED = ['%s/stays_connected' % f for f in sorted(RW.CONN)] + \
           ['%s/lattice_cost_not_increased' % f for f in sorted(RW.LAT)] + \
           ['randomize_graph_partial_und/mask_respected'] + \
           ['%s/rejects_disconnected' % f for f in ('randmio_und_connected', 'latmio_und_connected')] + \
           ['%s/rejects_asymmetric' % f for f in ('randmio_und_connected', 'latmio_und_connected')]
CASE_TIMEOUT = {'quick': 15.0, 'thorough': 90.0}
POL = sorted(p for p in rngmod.POLICIES if p != 'stall')


def hostile_und(seed, nmax):
    out = []
    for n in range(5, nmax + 1, 2):
        out += [['named', 'cycle', n], ['named', 'prufer', n, seed], ['named', 'tree_chords', n, 1, seed],
                ['named', 'tree_chords', n, 2, seed + 1], ['named', 'tree_chords', n, 3, seed + 2]]
    out += [['named', 'ring_of_cliques', 3, 3], ['named', 'ring_of_cliques', 4, 3], ['named', 'barbell', 3, 1],
            ['named', 'barbell', 3, 2], ['named', 'barbell', 4, 1], ['named', 'lollipop', 4, 3], ['named', 'path', 6],
            ['named', 'path', 9], ['named', 'grid', 2, 4], ['named', 'grid', 3, 3], ['named', 'wheel', 7],
            ['named', 'kab', 2, 4], ['named', 'star', 6]]
    return [g for g in out if len(G.build(g)) <= nmax]


def hostile_dir(seed, nmax):
    out = []
    for n in range(4, nmax + 1, 2):
        out += [['named', 'dcycle', n], ['named', 'dcycle_chords', n, 1, seed], ['named', 'dcycle_chords', n, 2, seed + 1],
                ['named', 'dcycle_chords', n, n, seed + 2]]
    for k in (3, 4, 5, 6):
        if 2 * k <= nmax:
            out.append(['named', 'two_blobs_dir', k, seed])
    # symmetric (bidirectional) sparse graphs are strongly connected too
    out += [['named', 'cycle', 6], ['named', 'tree_chords', 7, 1, seed], ['named', 'barbell', 3, 1]]
    return out


def cases(tier, seed):
    thorough = tier == 'thorough'
    nmax = 30 if thorough else 14
    rs = np.random.RandomState(seed + 99)
    out = []
    und = hostile_und(seed, min(nmax, 15))
    dr = hostile_dir(seed, min(nmax, 14))
    for t in range(60 if thorough else 12):
        n = int(rs.randint(6, nmax + 1))
        und.append(['named', 'er_connected', n, float(rs.choice([.03, .08, .15])), int(rs.randint(1 << 30))])
        dr.append(['named', 'er_strong', n, float(rs.choice([.03, .08, .15])), int(rs.randint(1 << 30))])
    itrs = [1, 2, 5] if thorough else [1, 3]
    for i, g in enumerate(und):
        for w in (('bin', 'real', 'int') if thorough else (('bin', 'real')[i % 2],)):
            for f in ('randmio_und_connected', 'latmio_und_connected', 'latmio_und', 'randomize_graph_partial_und'):
                out.append({'f': f, 'g': g, 'w': w, 'ws': i, 'directed': False, 'kind': 'single', 'itrs': itrs,
                            'rs': seed * 100 + i, 'pols': POL if (thorough or i % 4 == 0) else [POL[i % len(POL)], 'sticky']})
    for i, g in enumerate(dr):
        for w in (('bin', 'real', 'int') if thorough else (('bin', 'real')[i % 2],)):
            for f in ('randmio_dir_connected', 'latmio_dir_connected', 'latmio_dir'):
                out.append({'f': f, 'g': g, 'w': w, 'ws': i, 'directed': True, 'kind': 'single', 'itrs': itrs,
                            'rs': seed * 100 + i, 'pols': POL if (thorough or i % 4 == 0) else [POL[i % len(POL)], 'sticky']})
    # trajectories
    L = 400 if thorough else 60
    for i, g in enumerate(und[::3]):
        for rd in ({'kind': 'spy', 'seed': seed + i}, {'kind': 'hostile', 'policy': 'sticky', 'seed': seed + i},
                   {'kind': 'hostile', 'policy': POL[i % len(POL)], 'seed': seed}):
            out.append({'f': 'randmio_und_connected', 'g': g, 'w': 'bin', 'directed': False, 'kind': 'chain', 'len': L, 'rng': rd})
    for i, g in enumerate(dr[::3]):
        for rd in ({'kind': 'spy', 'seed': seed + i}, {'kind': 'hostile', 'policy': 'sticky', 'seed': seed + i},
                   {'kind': 'hostile', 'policy': POL[i % len(POL)], 'seed': seed}):
            out.append({'f': 'randmio_dir_connected', 'g': g, 'w': 'bin', 'directed': True, 'kind': 'chain', 'len': L, 'rng': rd})
    # dense by rows, fragile by columns: every out-degree >= n/2, two nodes with a single incoming connection
    for n in ((8, 10, 12, 16) if thorough else (8, 10, 12)):
        for sd in range(12 if thorough else 4):
            g = ['named', 'dense_out_low_in', n, seed * 50 + sd]
            for rd in ({'kind': 'spy', 'seed': seed + sd}, {'kind': 'hostile', 'policy': 'low', 'seed': seed + sd},
                       {'kind': 'hostile', 'policy': 'sticky', 'seed': seed + sd}):
                out.append({'f': 'randmio_dir_connected', 'g': g, 'w': 'bin', 'directed': True, 'kind': 'chain', 'len': 300 if thorough else 120, 'rng': rd})
            out.append({'f': 'randmio_dir_connected', 'g': g, 'w': 'real', 'ws': sd, 'directed': True, 'kind': 'single', 'itrs': [2, 5, 10],
                        'rs': seed * 100 + sd, 'pols': POL})
            out.append({'f': 'latmio_dir_connected', 'g': g, 'w': 'real', 'ws': sd, 'directed': True, 'kind': 'single', 'itrs': [2, 5],
                        'rs': seed * 100 + sd, 'pols': ['sticky', 'low']})
    # triangles strung together by connector nodes, whole-run budgets (several iterations inside ONE call, so that
    # anything the routine computed before its loop is stale by the time it matters), many seeds
    for t in (2, 3, 4) if thorough else (2, 3):
        for sd in range(60 if thorough else 12):
            for f in ('randmio_und_connected', 'latmio_und_connected'):
                out.append({'f': f, 'g': ['named', 'tri_cactus', t, seed * 7 + sd], 'w': 'bin', 'ws': sd, 'directed': False,
                            'kind': 'single', 'itrs': [1, 2, 4], 'rs': seed * 1000 + sd * 13 + t,
                            'pols': [POL[sd % len(POL)]], 'nspy': 12 if f == 'randmio_und_connected' else 2})
    # masks that cover cells already holding a connection, several swaps per call: a covered connection may leave its
    # cell, nothing may enter it afterwards; distinct real weights identify every connection
    for t in range(150 if thorough else 40):
        n = int(rs.randint(7, 13))
        out.append({'f': 'randomize_graph_partial_und', 'g': ['named', 'er_connected', n, float(rs.choice([.25, .35, .5])), int(rs.randint(1 << 30))],
                    'w': 'real', 'ws': t, 'directed': False, 'kind': 'mask_overlap', 'rs': seed * 100 + t,
                    'dens': float(rs.choice([.2, .35, .5]))})
    # negative cases
    neg = [['disjoint', ['named', 'cycle', 4], ['named', 'cycle', 4]], ['iso', ['named', 'er_connected', 6, .4, seed], 1],
           ['disjoint', ['named', 'path', 3], ['named', 'complete', 4]], ['disjoint', ['named', 'complete', 3], ['named', 'complete', 3]],
           ['iso', ['named', 'grid', 2, 3], 2]]
    for t in range(20 if thorough else 6):
        n = int(rs.randint(6, 14))
        neg.append(['disjoint', ['named', 'er_connected', n // 2, .4, int(rs.randint(1 << 30))],
                    ['named', 'er_connected', n - n // 2, .4, int(rs.randint(1 << 30))]])
    for i, g in enumerate(neg):
        for f in ('randmio_und_connected', 'latmio_und_connected'):
            out.append({'f': f, 'g': g, 'kind': 'neg_disconnected', 'w': ('bin', 'real')[i % 2], 'ws': i, 'directed': False})
    # two equal cliques (every node adjacent to half of the others) and self-connections on every node: dense by any
    # degree count, disconnected all the same
    for i, k in enumerate((3, 4, 5, 6) if thorough else (3, 4, 5)):
        g = ['disjoint', ['named', 'complete', k], ['named', 'complete', k]]
        for f in ('randmio_und_connected', 'latmio_und_connected'):
            for sl in (True, False):
                out.append({'f': f, 'g': ['perm', g, seed + i] if i % 2 else g, 'kind': 'neg_disconnected', 'w': ('bin', 'real')[i % 2], 'ws': i,
                            'directed': False, 'selfloops': sl})
    asym = [['named', 'er_strong', 6, .3, seed + i] for i in range(30 if thorough else 5)] + \
           [['named', 'dcycle_chords', 7, 4, seed], ['named', 'tournament', 6, seed]]
    for i, g in enumerate(asym):
        for f in ('randmio_und_connected', 'latmio_und_connected'):
            out.append({'f': f, 'g': g, 'kind': 'neg_asymmetric', 'w': ('bin', 'real')[i % 2], 'ws': i, 'directed': True})
            out.append({'f': f, 'g': g, 'kind': 'neg_asymmetric', 'w': 'real', 'ws': i, 'directed': True, 'scale': 1e-10})
    for i, g in enumerate(und[::4]):   # the same routines on weights far below any absolute tolerance
        for f in ('randmio_und_connected', 'latmio_und_connected', 'latmio_und'):
            out.append({'f': f, 'g': g, 'w': 'real', 'ws': i, 'directed': False, 'kind': 'single', 'itrs': [1, 2], 'rs': seed * 100 + i,
                        'pols': ['sticky'], 'scale': 1e-10})
    return out


def run(case, bct, REC):
    f = case['f']
    directed = case['directed']
    A = G.build(case['g'])
    R = G.weigh(A, case.get('w', 'bin'), case.get('ws', 0), symmetric=not directed) * case.get('scale', 1.0)
    n = len(R)
    if case.get('selfloops'):
        R = R.copy()
        R[np.arange(n), np.arange(n)] = 1.0
    kind = case['kind']
    if kind in ('neg_disconnected', 'neg_asymmetric'):
        if kind == 'neg_asymmetric' and np.array_equal(R, R.T):
            return
        if kind == 'neg_disconnected' and O.is_connected(R):
            return
        REC.tag(PROP, 'exec')
        clause = 'rejects_disconnected' if kind == 'neg_disconnected' else 'rejects_asymmetric'
        fn = getattr(bct, f)
        for itr in (1, 0, 3):      # invalid input is invalid whatever the rewiring budget
            try:
                fn(R, itr, seed=case.get('ws', 0))
                REC.check(PROP, f, clause, False, {'R': R, 'itr': itr, 'outcome': 'returned'}, ('itr=%d' % itr,))
            except bct.BCTParamError:
                REC.check(PROP, f, clause, True)
                REC.note_nontrivial(PROP, f, clause, R, itr)
            except Exception as e:  # noqa
                REC.check(PROP, f, clause, False, {'R': R, 'itr': itr, 'outcome': repr(e)[:200]}, ('itr=%d' % itr,))
        return
    if not two_disjoint_edges(R, directed):
        REC.tag(PROP, 'out_of_domain_skipped')
        return
    if f in RW.CONN and not (O.is_strongly_connected(R) if directed else O.is_connected(R)):
        REC.tag(PROP, 'out_of_domain_skipped')
        return
    host = RW.hostility(R, directed) if f in RW.CONN else 0.0
    if f in RW.CONN:
        REC.tag(PROP, 'hostility>0.3' if host > 0.3 else 'hostility<=0.3')
    cap = RW.get_capture(bct)
    if kind == 'chain':
        rng = rngmod.make_rng(case['rng'])
        k = int((R != 0).sum()) if directed else int((np.tril(R) != 0).sum())
        cur = R
        acc = 0
        for t in range(case['len']):
            X = RW.execute(REC, bct, f, cur, {'itr': (1 + 1e-9) / k, 'link': t, 'hostility': host}, rng)
            if X is None or X.shape != R.shape:
                break
            acc += int(not np.array_equal(X, cur))
            cur = X
        REC.tag(PROP, 'chain_links', case['len'])
        REC.tag(PROP, 'chain_accepted_swaps', acc)
        REC.sample(PROP, {'kind': 'chain', 'f': f, 'R': R, 'hostility': host, 'links': case['len'], 'accepted': acc,
                          'rng': case['rng']})
        return
    if case['kind'] == 'mask_overlap':
        B = feasible_mask(R, case['rs'], case['dens'], overlap=True)
        nv = count_valid_swaps(R, B)
        if nv < 240 or not np.any((B != 0) & (R != 0)):
            REC.tag(PROP, 'mask_overlap:too_few_valid_swaps_skipped')
            return
        for d in ({'kind': 'spy', 'seed': case['rs']}, {'kind': 'spy', 'seed': case['rs'] + 1},
                  {'kind': 'hostile', 'policy': POL[case['rs'] % len(POL)], 'seed': case['rs']}):
            for ms in (2, 3, 5):
                RW.execute(REC, bct, f, R, {'maxswap': ms, 'B': B, 'overlap': True}, rngmod.make_rng(d))
        return
    descrs = [{'kind': 'spy', 'seed': case['rs'] + 7919 * j} for j in range(case.get('nspy', 1))] + \
             [{'kind': 'hostile', 'policy': p, 'seed': case['rs']} for p in case['pols']]
    for itr in case['itrs']:
        for di, d in enumerate(descrs):
            if f in RW.LAT:
                kinds = ['default', 'ring', 'rand', 'randint', 'const']
                dk = kinds[(di + itr) % len(kinds)]
                D = RW.make_D(dk, n, case['rs'] + di, symmetric=not (directed and di % 2 == 1))
                if dk == 'randint' and D is not None:   # caller-supplied integer distance tables
                    D = D.astype([np.uint8, np.int64, np.uint16, np.float32][(di + itr) % 4])
                RW.execute(REC, bct, f, R, {'itr': itr, 'D': D, 'Dk': dk, 'hostility': host}, rngmod.make_rng(d), capture=cap)
            elif f == 'randomize_graph_partial_und':
                overlap = (di % 3 == 2)
                B = feasible_mask(R, case['rs'] + itr + di, [.1, .2, .3][di % 3], overlap=overlap)
                ms = 1 if overlap else min(itr, 5)
                if not has_valid_swap(R, B):
                    REC.tag(PROP, 'partial_und:no_valid_swap_skipped')
                    continue
                RW.execute(REC, bct, f, R, {'maxswap': ms, 'B': B, 'overlap': overlap}, rngmod.make_rng(d))
            else:
                RW.execute(REC, bct, f, R, {'itr': itr, 'hostility': host}, rngmod.make_rng(d))
    REC.sample(PROP, {'kind': 'single', 'f': f, 'R': R if n <= 9 else case['g'], 'hostility': host, 'itrs': case['itrs'],
                      'rngs': descrs})
