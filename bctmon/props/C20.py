"""C20 -- synthetic generators deliver the requested size, edge count and symmetry."""
import numpy as np

from .. import graphs as G
from .. import rng as rngmod
from .common import call

PROP = 'C20'
FUNCS = ['makerandCIJ_und', 'makerandCIJ_dir', 'makeringlatticeCIJ', 'maketoeplitzCIJ', 'makeevenCIJ',
         'makefractalCIJ', 'makerandCIJdegreesfixed']
ANCHORS = FUNCS
RULE = ('one execution = one generator call with one configuration and one RNG schedule; configurations: every (N,K) '
        'with N<=8 (quick) / 10 (thorough) and every feasible K for the random and ring-lattice generators, N in '
        '{16,32} on a K grid, powers of two x cluster sizes x K for the hierarchical generators, s in {0.5,1,2,4} for '
        'the toeplitz generator, degree sequences of random simple digraphs for makerandCIJdegreesfixed; schedules: Spy '
        'seeds and every Hostile policy; non-trivial = 0 < K < maximum (ring lattice: K not a multiple of a band size)')
EXHAUSTIVE = {'quick': 'every (N,K), 2<=N<=8, 0<=K<=max, for makerandCIJ_und/_dir and makeringlatticeCIJ',
              'thorough': 'every (N,K), 2<=N<=10, 0<=K<=max, for makerandCIJ_und/_dir and makeringlatticeCIJ'}
ASSUMPTIONS = ['maketoeplitzCIJ may give up with BCTParamError after 10000 rejections (documented): counted, not judged',
               'makerandCIJdegreesfixed may give up with BCTParamError (its repair heuristic is documented as not '
               'guaranteed): counted, not judged', 'bool and int 0/1 outputs are both accepted as 0/1 matrices',
               'makeevenCIJ: cluster size 2**sz_cl <= N, K at least the number of cluster connections']
REQUIRED = ['makerandCIJ_und/count', 'makerandCIJ_und/symmetric', 'makerandCIJ_dir/count', 'makeringlatticeCIJ/count',
            'makeringlatticeCIJ/nearer_bands_full_first', 'maketoeplitzCIJ/count', 'makeevenCIJ/count',
            'makefractalCIJ/reported_count', 'makerandCIJdegreesfixed/in_degrees', 'makerandCIJdegreesfixed/out_degrees']
CASE_TIMEOUT = {'quick': 30.0, 'thorough': 120.0}
POL = sorted(p for p in rngmod.POLICIES if p != 'stall')


def cases(tier, seed):
    thorough = tier == 'thorough'
    out = []
    nmax = 10 if thorough else 8
    nspy = 30 if thorough else 4
    for n in range(2, nmax + 1):
        for k in range(0, n * (n - 1) // 2 + 1):
            out.append({'f': 'makerandCIJ_und', 'n': n, 'k': k, 'nspy': nspy, 'rs': seed * 1000 + k})
        for k in range(0, n * (n - 1) + 1):
            out.append({'f': 'makerandCIJ_dir', 'n': n, 'k': k, 'nspy': nspy, 'rs': seed * 1000 + k})
            out.append({'f': 'makeringlatticeCIJ', 'n': n, 'k': k, 'nspy': nspy, 'rs': seed * 1000 + k})
    rs = np.random.RandomState(seed + 2020)
    for n in (16, 32, 64, 128, 256) if thorough else (16, 64, 130):
        for k in sorted(set(rs.randint(0, n * (n - 1) + 1, size=20 if thorough else 8).tolist() + [n * (n - 1), n * (n - 2), 2 * n, 2 * n + 1])):
            out.append({'f': 'makerandCIJ_dir', 'n': n, 'k': int(k), 'nspy': 3, 'rs': seed})
            out.append({'f': 'makeringlatticeCIJ', 'n': n, 'k': int(k), 'nspy': 3, 'rs': seed})
            if k <= n * (n - 1) // 2:
                out.append({'f': 'makerandCIJ_und', 'n': n, 'k': int(k), 'nspy': 3, 'rs': seed})
    # toeplitz: rejection sampling, keep sizes moderate
    for n in (4, 6, 9, 12) if thorough else (4, 6, 9):
        for s in (0.5, 1, 2, 4):
            for k in sorted(set([1, n, 2 * n, n * (n - 1) // 3])):
                out.append({'f': 'maketoeplitzCIJ', 'n': n, 'k': int(k), 's': s, 'nspy': 6 if thorough else 2, 'rs': seed})
    # even / fractal
    for lvl in (2, 3, 4, 5) if thorough else (2, 3, 4):
        n = 2 ** lvl
        for sz in range(1, lvl + 1):
            base = n * (2 ** sz - 1)
            ks = sorted(set([base, base + 1, (base + n * (n - 1)) // 2, n * (n - 1)]))
            for k in ks:
                if base <= k <= n * (n - 1):
                    out.append({'f': 'makeevenCIJ', 'n': n, 'k': int(k), 'sz': sz, 'nspy': 6 if thorough else 2, 'rs': seed})
            for E in (1.5, 2, 3):
                out.append({'f': 'makefractalCIJ', 'lvl': lvl, 'E': E, 'sz': sz, 'nspy': 6 if thorough else 2, 'rs': seed})
    # degree sequences of random simple digraphs
    for t in range(150 if thorough else 40):
        n = int(rs.randint(3, 21 if thorough else 11))
        out.append({'f': 'makerandCIJdegreesfixed', 'n': n, 'p': float(rs.choice([.1, .2, .3, .5])),
                    'gs': int(rs.randint(1 << 30)), 'nspy': 4 if thorough else 2, 'rs': seed + t})
    for n in (1, 2, 5):   # boundary: the empty digraph is a graphical pair too
        out.append({'f': 'makerandCIJdegreesfixed', 'n': n, 'p': 0.0, 'gs': 0, 'nspy': 1, 'rs': seed, 'empty': True})
    out.append({'f': 'maketoeplitzCIJ', 'n': 400, 'k': 100100, 's': 1000.0, 'nspy': 3 if tier == 'thorough' else 2, 'rs': seed, 'nohostile': True})
    return out


def is01(X):
    return bool(np.all((X == 0) | (X == 1)))


def run(case, bct, REC):
    f = case['f']
    fn = getattr(bct, f)
    descrs = [{'kind': 'spy', 'seed': case['rs'] + i} for i in range(case['nspy'])] + \
             [{'kind': 'hostile', 'policy': p, 'seed': case['rs']} for p in (() if case.get('nohostile') else POL)]
    if f == 'makerandCIJdegreesfixed':
        A = G.er(case['n'], case['p'], True, case['gs'])
        inv = A.sum(axis=0).astype(int)
        outv = A.sum(axis=1).astype(int)
        if case.get('empty'):
            inv, outv = np.zeros(case['n'], dtype=int), np.zeros(case['n'], dtype=int)
        elif inv.sum() == 0:
            return
    for d in descrs:
        rng = rngmod.make_rng(d)
        REC.tag(PROP, 'exec')
        if f in ('makerandCIJ_und', 'makerandCIJ_dir', 'makeringlatticeCIJ'):
            n, k = case['n'], case['k']
            ok, X = call(REC, PROP, f, fn, n, k, seed=rng)
            if not ok:
                continue
            X = np.asarray(X)
            det = {'n': n, 'k': k, 'X': X, 'rng': d}
            if not REC.check(PROP, f, 'shape', X.shape == (n, n), det):
                continue
            REC.check(PROP, f, 'zero_one', is01(X), det)
            REC.check(PROP, f, 'empty_diagonal', bool(np.all(np.diag(X) == 0)), det)
            if f == 'makerandCIJ_und':
                REC.check(PROP, f, 'symmetric', bool(np.array_equal(X, X.T)), det)
                REC.check(PROP, f, 'count', int(np.triu(X != 0, 1).sum()) == k and int((X != 0).sum()) == 2 * k, det)
                nontriv = 0 < k < n * (n - 1) // 2
            else:
                REC.check(PROP, f, 'count', int((X != 0).sum()) == k, det)
                nontriv = 0 < k < n * (n - 1)
            if f == 'makeringlatticeCIJ':
                i = np.arange(n)
                off = np.minimum((i[None, :] - i[:, None]) % n, (i[:, None] - i[None, :]) % n)
                occ = [(int((X[off == dd] != 0).sum()), int((off == dd).sum())) for dd in range(1, n // 2 + 1)]
                good = all(not (occ[dd][0] > 0 and any(occ[e][0] < occ[e][1] for e in range(dd))) for dd in range(len(occ)))
                REC.check(PROP, f, 'nearer_bands_full_first', good, dict(det, band_occupancy=occ))
                REC.check(PROP, f, 'single_partial_band', sum(1 for a, b in occ if 0 < a < b) <= 1, dict(det, band_occupancy=occ))
                nontriv = nontriv and any(0 < a < b for a, b in occ)
            if nontriv:
                REC.note_nontrivial(PROP, f, n, k, rng.schedule_hash())
        elif f == 'maketoeplitzCIJ':
            n, k, s = case['n'], case['k'], case['s']
            try:
                X = fn(n, k, s, seed=rng)
            except bct.BCTParamError:
                REC.tag(PROP, 'toeplitz_gave_up')
                continue
            except Exception as e:  # noqa
                REC.check(PROP, f, 'returns', False, {'n': n, 'k': k, 's': s, 'exception': repr(e)[:200]})
                continue
            REC.check(PROP, f, 'returns', True)
            X = np.asarray(X)
            det = {'n': n, 'k': k, 's': s, 'X': X, 'rng': d}
            if not REC.check(PROP, f, 'shape', X.shape == (n, n), det):
                continue
            REC.check(PROP, f, 'count', int((X != 0).sum()) == k, det)
            REC.check(PROP, f, 'empty_diagonal', bool(np.all(np.diag(X) == 0)), det)
            REC.check(PROP, f, 'zero_one', is01(X), det)
            REC.note_nontrivial(PROP, f, n, k, s, rng.schedule_hash())
        elif f == 'makeevenCIJ':
            n, k, sz = case['n'], case['k'], case['sz']
            ok, X = call(REC, PROP, f, fn, n, k, sz, seed=rng)
            if not ok:
                continue
            X = np.asarray(X)
            det = {'n': n, 'k': k, 'sz_cl': sz, 'X': X, 'rng': d}
            if not REC.check(PROP, f, 'shape', X.shape == (n, n), det):
                continue
            REC.check(PROP, f, 'count', int((X != 0).sum()) == k, det)
            REC.check(PROP, f, 'empty_diagonal', bool(np.all(np.diag(X) == 0)), det)
            REC.check(PROP, f, 'zero_one', is01(X), det)
            c = 2 ** sz
            blocks = np.kron(np.eye(n // c), np.ones((c, c))) - np.eye(n)
            REC.check(PROP, f, 'clusters_complete', bool(np.all(X[blocks > 0] != 0)), det)
            if n * (c - 1) < k < n * (n - 1):
                REC.note_nontrivial(PROP, f, n, k, sz, rng.schedule_hash())
        elif f == 'makefractalCIJ':
            lvl, E, sz = case['lvl'], case['E'], case['sz']
            ok, res = call(REC, PROP, f, fn, lvl, E, sz, seed=rng)
            if not ok:
                continue
            X, K = res
            X = np.asarray(X)
            det = {'mx_lvl': lvl, 'E': E, 'sz_cl': sz, 'X': X, 'K': K, 'rng': d}
            if not REC.check(PROP, f, 'shape', X.shape == (2 ** lvl, 2 ** lvl), det):
                continue
            REC.check(PROP, f, 'reported_count', int(K) == int((X != 0).sum()), det)
            REC.check(PROP, f, 'empty_diagonal', bool(np.all(np.diag(X) == 0)), det)
            REC.check(PROP, f, 'zero_one', is01(X), det)
            REC.note_nontrivial(PROP, f, lvl, E, sz, rng.schedule_hash())
        else:  # makerandCIJdegreesfixed
            try:
                X = fn(inv.copy(), outv.copy(), seed=rng)
            except bct.BCTParamError:
                REC.tag(PROP, 'degreesfixed_gave_up')
                continue
            except Exception as e:  # noqa
                REC.check(PROP, f, 'returns', False, {'in': inv, 'out': outv, 'exception': repr(e)[:200], 'rng': d})
                continue
            REC.check(PROP, f, 'returns', True)
            X = np.asarray(X)
            det = {'in': inv, 'out': outv, 'X': X, 'rng': d}
            if not REC.check(PROP, f, 'shape', X.shape == (len(inv), len(inv)), det):
                continue
            REC.check(PROP, f, 'in_degrees', bool(np.array_equal(X.sum(axis=0), inv)), det)
            REC.check(PROP, f, 'out_degrees', bool(np.array_equal(X.sum(axis=1), outv)), det)
            REC.check(PROP, f, 'zero_one', is01(X), det)
            REC.check(PROP, f, 'empty_diagonal', bool(np.all(np.diag(X) == 0)), det)
            if rng.by_method.get('randint', 0) > 0:
                REC.tag(PROP, 'degreesfixed_repair_exercised')
            REC.note_nontrivial(PROP, f, inv, outv, rng.schedule_hash())
        REC.schedules.add(rng.schedule_hash())
    REC.sample(PROP, {k: v for k, v in case.items()})
