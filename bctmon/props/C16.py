"""C16 -- connected components are exactly the classes of mutually reachable nodes."""
import numpy as np

from .. import graphs as G
from .. import oracles as O
from .common import call, dtype_variants_agree, layout_variants_agree

PROP = 'C16'
ANCHORS = ['get_components', 'number_of_components']
RULE = ('one execution = get_components + number_of_components on one undirected matrix (binary or weighted, any '
        'diagonal), co-membership compared with an independent BFS oracle and with the finite entries of distance_bin / '
        'breadthdist / reachdist; inputs: every labelled undirected graph on <=5/6 nodes, forests, many isolated nodes, '
        'edge-order adversaries (target partition relabelled so that the edges joining large partial components come '
        'last in row-major scan order), random graphs up to 40/150 nodes; asymmetric input must raise BCTParamError; '
        'non-trivial = at least two components of size >= 2, or a late merge (the last edge in scan order joins two '
        'partial components of size >= 3)')
EXHAUSTIVE = {'quick': 'all labelled undirected graphs on <=5 nodes', 'thorough': 'all labelled undirected graphs on <=6 nodes'}
ASSUMPTIONS = ['symmetric input, any diagonal and any nonzero weights (negative included)']
REQUIRED = ['get_components/comembership', 'get_components/labels_1_to_m', 'get_components/sizes',
            'number_of_components/count', 'get_components/rejects_asymmetric', 'get_components/agrees_with_distance_bin',
            'get_components/agrees_with_breadthdist', 'get_components/agrees_with_reachdist']
CASE_TIMEOUT = {'quick': 30.0, 'thorough': 180.0}



def _cc_und(rs, n, binary=False, p=.15):
    A = np.triu((rs.rand(n, n) < p).astype(float), 1)
    A[np.arange(n - 1), np.arange(1, n)] = 1      # a spanning path keeps it connected
    W = A if binary else A * (rs.rand(n, n) * .9 + .1)
    return W + W.T


def cases(tier, seed):
    thorough = tier == 'thorough'
    out = []
    un = 6 if thorough else 5
    for n in range(1, un + 1):
        for bits in G.all_masks(n, False):
            out.append({'g': ['mask', n, bits, False], 'ws': bits % 1000, 'kind': 'und'})
    nmax = 150 if thorough else 40
    rs = np.random.RandomState(seed + 1616)
    recs = list(G.structured_und(16, seeds=(seed, seed + 1)))
    for t in range(200 if thorough else 50):
        n = int(rs.randint(4, nmax + 1))
        kind = t % 5
        if kind == 0:
            recs.append(['named', 'late_merge', n, int(rs.randint(1 << 30))])
        elif kind == 1:  # forest: several trees in random numbering
            k = int(rs.randint(2, 5))
            parts = [['named', 'prufer', max(1, n // k), int(rs.randint(1 << 30))] for _ in range(k)]
            recs.append(['perm', ['disjoint'] + parts, int(rs.randint(1 << 30))])
        elif kind == 2:  # many isolated nodes
            recs.append(['perm', ['iso', ['er', max(2, n // 2), .3, False, int(rs.randint(1 << 30))], n - n // 2], int(rs.randint(1 << 30))])
        elif kind == 3:  # sparse ER near the connectivity threshold
            recs.append(['er', n, float(rs.choice([.5, 1.0, 1.5, 2.5])) / n, False, int(rs.randint(1 << 30))])
        else:  # planted blocks joined by few late edges
            k = int(rs.randint(2, 5))
            parts = [['named', 'er_connected', max(2, n // k), .3, int(rs.randint(1 << 30))] for _ in range(k)]
            recs.append(['perm', ['disjoint'] + parts, int(rs.randint(1 << 30))])
    for n in range(6, 41 if thorough else 25, 2 if thorough else 3):
        for k in (2, 3, 4):
            for sd in range(3 if thorough else 2):
                recs.append(['named', 'late_merge_k', n, k, seed * 10 + sd])
    recs += G.blob_chains(300 if thorough else 100)
    recs += [['named', 'lollipop', 40, 260], ['disjoint', ['named', 'lollipop', 30, 160], ['named', 'path', 3]]]   # dense part and far tail in one component
    for t in range(600 if thorough else 200):
        n = int(rs.randint(10, 90))
        recs.append(['named', 'late_hub_tree', n, int(rs.randint(1 << 30))])
    for i, g in enumerate(recs):
        out.append({'g': g, 'ws': seed * 100 + i, 'kind': 'und', 'lite': i > 400})
    # long chains: depth of whatever structure a routine builds while merging or searching (a parent chain, a recursion)
    # grows with the chain; numbering schemes that make the chain as deep as it gets
    for k in (9, 12, 17, 25, 40) + ((80, 150) if thorough else ()):
        out.append({'g': ['named', 'reversed_comb', k], 'ws': k, 'kind': 'und', 'lite': True})
        out.append({'g': ['disjoint', ['named', 'reversed_comb', k], ['named', 'reversed_comb', max(3, k // 2)]], 'ws': k, 'kind': 'und', 'lite': True})
    for n in (60, 300) + ((1200, 2600) if thorough else (1200,)):
        for mode in ('natural', 'reversed', 'evenodd', 'outside_in', 'bitrev', 'random'):
            if n > 300 and mode in ('evenodd', 'bitrev') and not thorough:
                continue
            g = ['named', 'numbered_path', n, mode, seed]
            out.append({'g': g if n > 300 else ['disjoint', g, ['named', 'numbered_path', n // 2, mode, seed + 1]], 'ws': n, 'kind': 'und', 'lite': True, 'long': n > 300})
    # brute force over sparse labelled trees / forests: overlapping partial components that are not re-merged
    # need several late multi-way merges in an unlucky order (measured rate of a seeded fault: ~5e-4 per tree)
    for t in range(1600 if thorough else 160):
        out.append({'kind': 'tree_batch', 'count': 250, 'nlo': 30, 'nhi': 90, 'rs': int(rs.randint(1 << 30)), 'forest': t % 4 == 3})
    for t in range(30 if thorough else 10):
        out.append({'g': ['er', int(rs.randint(3, 12)), .3, True, int(rs.randint(1 << 30))], 'ws': t, 'kind': 'asym'})
    out.append({'kind': 'degenerate', 'g': ['named', 'path', 2], 'directed': False, 'ws': 0, 'schemes': []})
    out.append({'kind': 'concurrent', 'g': ['named', 'path', 2], 'directed': False, 'ws': seed, 'schemes': [], 'n': 220 if tier == 'thorough' else 120})
    return out


def late_merge_measure(A):
    """size of the smaller of the two partial components joined by the last merging edge in row-major scan order"""
    n = len(A)
    parent = list(range(n))
    size = [1] * n

    def find(x):
        while parent[x] != x:
            parent[x] = parent[parent[x]]
            x = parent[x]
        return x
    last = 0
    for u in range(n):
        for v in range(n):
            if u != v and A[u, v] != 0:
                a, b = find(u), find(v)
                if a != b:
                    last = min(size[a], size[b])
                    if size[a] < size[b]:
                        a, b = b, a
                    parent[b] = a
                    size[a] += size[b]
    return last


def run_batch(case, bct, REC):
    rs = np.random.RandomState(case['rs'])
    for t in range(case['count']):
        n = int(rs.randint(case['nlo'], case['nhi']))
        A = G.prufer_tree(n, int(rs.randint(1 << 30)))
        if case['forest']:
            i, j = np.where(np.triu(A, 1))
            for a, b in zip(i, j):
                if rs.rand() < .08:
                    A[a, b] = A[b, a] = 0
        REC.tag(PROP, 'exec')
        lab, m = O.components(A)
        ok, res = call(REC, PROP, 'get_components', bct.get_components, A)
        if not ok:
            continue
        comps, sizes = np.asarray(res[0]), np.asarray(res[1])
        det = {'A': A, 'comps': comps, 'sizes': sizes, 'variant': 'tree_batch'}
        shape_ok = comps.shape == (n,)
        REC.check(PROP, 'get_components', 'comembership', shape_ok and bool(np.array_equal(O.comembership(comps), O.comembership(lab))), det)
        REC.check(PROP, 'get_components', 'labels_1_to_m', shape_ok and bool(np.array_equal(np.unique(comps), np.arange(1, m + 1))), det)
        REC.check(PROP, 'get_components', 'sizes', shape_ok and len(sizes) == m and
                  all(int(sizes[int(l) - 1]) == int((comps == l).sum()) for l in np.unique(comps) if 1 <= l <= len(sizes)), det)
        if late_merge_measure(A) >= 3 or m >= 2:
            REC.note_nontrivial(PROP, A)
    REC.tag(PROP, 'tree_batch_graphs', case['count'])


def run(case, bct, REC):
    if case.get('kind') == 'concurrent':
        from .common import concurrent_callers_agree
        REC.tag(PROP, 'exec')
        return concurrent_callers_agree(REC, PROP, bct, [('get_components', lambda rs, n: (_cc_und(rs, n, True, .02),)), ('number_of_components', lambda rs, n: (_cc_und(rs, n, True, .02),))], case['n'], case['ws'])
    if case.get('kind') == 'degenerate':
        from .common import degenerate_sizes
        REC.tag(PROP, 'exec')
        return degenerate_sizes(REC, PROP, bct, [('get_components', ()), ('number_of_components', ())])
    if case['kind'] == 'tree_batch':
        return run_batch(case, bct, REC)
    A = G.build(case['g'])
    n = len(A)
    if case['kind'] == 'asym':
        if np.array_equal(A, A.T):
            return
        REC.tag(PROP, 'exec')
        S = ((A + A.T) > 0).astype(float)  # symmetric support, asymmetric weights
        Wsym = G.weigh(S, 'real', case['ws'], symmetric=True)
        near = [Wsym * (1 + eps * np.triu(np.ones(S.shape), 1)) for eps in (1e-6, 1e-12)]     # two triangles apart by a rounding-sized factor
        near = [X for X in near if not np.array_equal(X, X.T)]
        for X in [A, G.weigh(A, 'real', case['ws'], symmetric=False), G.weigh(S, 'real', case['ws'], symmetric=False)] + near:
            try:
                bct.get_components(X)
                REC.check(PROP, 'get_components', 'rejects_asymmetric', False, {'A': X, 'outcome': 'returned'})
            except bct.BCTParamError:
                REC.check(PROP, 'get_components', 'rejects_asymmetric', True)
            except Exception as e:  # noqa
                REC.check(PROP, 'get_components', 'rejects_asymmetric', False, {'A': X, 'outcome': repr(e)[:200]})
        return
    rs = np.random.RandomState(case['ws'])
    variants = [('bin', A)]
    W = G.weigh(A, 'signed', case['ws'], symmetric=True)
    Wd = W.copy()
    np.fill_diagonal(Wd, rs.randint(0, 3, size=n).astype(float))
    variants += [('signed_weights', W), ('nonzero_diagonal', Wd), ('tiny_weights', G.weigh(A, 'logu', case['ws'], symmetric=True) * 1e-6)]
    if case.get('lite'):
        variants = variants[:1]
    lab, m = O.components(A)
    co = O.comembership(lab)
    for vname, X in variants:
        REC.tag(PROP, 'exec')
        ok, res = call(REC, PROP, 'get_components', bct.get_components, X)
        if not ok:
            continue
        comps, sizes = res
        comps = np.asarray(comps)
        sizes = np.asarray(sizes)
        det = {'A': X, 'variant': vname, 'comps': comps, 'sizes': sizes, 'expected_labels': lab}
        shape_ok = comps.shape == (n,)
        REC.check(PROP, 'get_components', 'comembership', shape_ok and bool(np.array_equal(O.comembership(comps), co)), det)
        u = np.unique(comps) if shape_ok else np.array([])
        REC.check(PROP, 'get_components', 'labels_1_to_m', shape_ok and bool(np.array_equal(u, np.arange(1, m + 1))), det)
        sz_ok = shape_ok and len(sizes) == len(u) and all(int(sizes[int(l) - 1]) == int((comps == l).sum()) for l in u if 1 <= l <= len(sizes))
        REC.check(PROP, 'get_components', 'sizes', bool(sz_ok) and len(sizes) == m, det)
        ok2, nc = call(REC, PROP, 'number_of_components', bct.number_of_components, X)
        if ok2:
            REC.check(PROP, 'number_of_components', 'count', int(nc) == m, dict(det, got=nc, expected=m))
        if vname == 'bin' and shape_ok and not case.get('lite'):
            cm = O.comembership(comps)
            off = ~np.eye(n, dtype=bool)
            try:
                D = bct.distance_bin(X)
                REC.check(PROP, 'get_components', 'agrees_with_distance_bin', bool(np.array_equal(np.isfinite(D), cm)), dict(det, D=D))
                for fn in ('breadthdist', 'reachdist'):
                    R, D2 = getattr(bct, fn)(X)
                    REC.check(PROP, 'get_components', 'agrees_with_' + fn,
                              bool(np.array_equal(np.isfinite(np.asarray(D2, dtype=float))[off], cm[off])), dict(det, D=D2))
            except Exception as e:  # noqa
                REC.check(PROP, 'get_components', 'agrees_with_distance_bin', False, dict(det, exception=repr(e)[:200]))
    if n <= 30:
        dtype_variants_agree(REC, PROP, 'get_components', bct.get_components, A, matrix=True)
        dtype_variants_agree(REC, PROP, 'number_of_components', bct.number_of_components, A, matrix=True)
        layout_variants_agree(REC, PROP, 'get_components', bct.get_components, W)
    big = sum(1 for c in range(m) if (lab == c).sum() >= 2)
    lm = late_merge_measure(A)
    if big >= 2:
        REC.tag(PROP, 'class:two_components_of_size>=2')
    if lm >= 3:
        REC.tag(PROP, 'class:late_merge>=3')
    if big >= 2 or lm >= 3:
        REC.note_nontrivial(PROP, A)
    if n <= 6:
        REC.sample(PROP, {'A': A}, cap=4)
