"""C18 -- random-walk and spectral measures satisfy their defining equations."""
import numpy as np

from .. import graphs as G
from .. import oracles as O
from .common import call, close, dtype_variants_agree, layout_variants_agree, vector_forms_agree

PROP = 'C18'
ANCHORS = ['mean_first_passage_time', 'diffusion_efficiency', 'pagerank_centrality', 'subgraph_centrality',
           'eigenvector_centrality_und', 'findwalks']
RULE = ('one execution = one measure on one network; the residual of the defining equation is evaluated on the RETURNED '
        'arrays with the oracle own P, A, D: first-passage equation (i != j), diffusion efficiency = 1/MFPT and its mean, '
        'PageRank fixed-point equation / positivity / unit sum, subgraph centrality vs diag(expm(A)), eigenvector '
        'centrality non-negative unit eigenvector of lambda_max, walk counts vs integer matrix powers; inputs: connected '
        'undirected weighted and strongly connected directed graphs including PERIODIC chains (bipartite graphs, even '
        'cycles, trees), all kinds of undirected graphs for the spectral measures with emphasis on repeated eigenvalues '
        '(cycles, complete, complete bipartite, hypercubes, circulants, disjoint copies, isolated nodes) in shuffled '
        'numbering; d in {0.15,0.5,0.85,0.99}, falff default and random; non-trivial = repeated adjacency eigenvalue '
        '(spectral) or periodic / non-reversible chain (random walk)')
EXHAUSTIVE = {'quick': 'all labelled undirected graphs on <=5 nodes for subgraph / eigenvector centrality and findwalks',
              'thorough': 'all labelled undirected graphs on <=6 nodes for subgraph / eigenvector centrality and findwalks'}
ASSUMPTIONS = ['the first-passage equation is judged for i != j only (the convention M[j,j] = 0 is not judged)',
               'PageRank is judged on graphs without dangling columns', 'for a degenerate lambda_max any non-negative unit '
               'eigenvector is accepted', 'eigenvector centrality is judged on graphs with at least one edge']
REQUIRED = ['mean_first_passage_time/first_passage_equation', 'diffusion_efficiency/inverse_of_mfpt', 'diffusion_efficiency/global_mean',
            'pagerank_centrality/fixed_point', 'pagerank_centrality/positive_unit_sum', 'subgraph_centrality/diag_expm',
            'eigenvector_centrality_und/eigen_equation', 'eigenvector_centrality_und/nonnegative_unit', 'findwalks/matrix_powers',
            'findwalks/totals']
CASE_TIMEOUT = {'quick': 30.0, 'thorough': 180.0}



def _cc_und(rs, n, binary=False, p=.15):
    A = np.triu((rs.rand(n, n) < p).astype(float), 1)
    A[np.arange(n - 1), np.arange(1, n)] = 1      # a spanning path keeps it connected
    W = A if binary else A * (rs.rand(n, n) * .9 + .1)
    return W + W.T


def cases(tier, seed):
    thorough = tier == 'thorough'
    out = []
    un = 6 if thorough else 5
    for n in range(2, un + 1):
        for bits in G.all_masks(n, False):
            out.append({'kind': 'spectral', 'g': ['mask', n, bits, False], 'ws': bits % 1000})
    nmax = 40 if thorough else 12
    rs = np.random.RandomState(seed + 1818)
    sym = [['named', 'cycle', 4], ['named', 'cycle', 6], ['named', 'cycle', 8], ['named', 'cycle', 9], ['named', 'complete', 6],
           ['named', 'kab', 3, 3], ['named', 'kab', 2, 5], ['named', 'hypercube', 3], ['named', 'circulant', 9, [1, 3]],
           ['disjoint', ['named', 'cycle', 5], ['named', 'cycle', 5]], ['disjoint', ['named', 'complete', 4], ['named', 'complete', 4]],
           ['disjoint', ['named', 'complete', 3], ['named', 'complete', 3], ['named', 'complete', 3]],
           ['disjoint', ['named', 'cycle', 5], ['named', 'cycle', 7]], ['disjoint', ['named', 'complete', 3], ['named', 'cycle', 6]],
           ['disjoint', ['named', 'cycle', 4], ['named', 'cycle', 4], ['named', 'cycle', 4]], ['iso', ['named', 'wheel', 6], 2],
           ['named', 'star', 7], ['named', 'path', 7], ['named', 'grid', 3, 3], ['named', 'ring_of_cliques', 3, 3]]
    # several relabelled copies of one irregular graph: the top eigenvalue is repeated once per copy and a solver is free
    # to return any rotation inside that eigenspace (mixed signs across the copies)
    for t in range(3):
        base = ['named', 'er_connected', 5 + t, .5, seed + t]
        sym += [['disjoint', base, base], ['disjoint', base, base, base], ['disjoint', base, base, ['named', 'path', 3]]]
    sym += [['disjoint', ['named', 'path', 4], ['named', 'path', 4], ['named', 'path', 4]],
            ['disjoint', ['named', 'cycle', 5], ['named', 'cycle', 5], ['named', 'cycle', 5], ['named', 'cycle', 5]],
            ['disjoint', ['named', 'star', 4], ['named', 'star', 4], ['named', 'star', 4]]]
    if thorough:
        sym += [['named', 'hypercube', 4], ['named', 'circulant', 16, [1, 4]], ['named', 'kab', 6, 6], ['named', 'cycle', 24]]
    for i, g in enumerate(sym):
        for ps in range(25 if thorough else 8):
            out.append({'kind': 'spectral', 'g': ['perm', g, seed * 10 + ps + i] if ps else g, 'ws': i})
    for t in range(120 if thorough else 30):
        n = int(rs.randint(4, nmax + 1))
        out.append({'kind': 'spectral', 'g': ['er', n, float(rs.choice([.1, .2, .4, .7])), False, int(rs.randint(1 << 30))], 'ws': t})
    # walk counts beyond 2**63 (and, thorough, beyond 2**128): dense graphs of 18..40 nodes
    for n in ((18, 22, 26, 40) if thorough else (18, 24)):
        out.append({'kind': 'spectral', 'g': ['named', 'complete', n], 'ws': n, 'walks': True})
        out.append({'kind': 'spectral', 'g': ['er', n, .6, False, seed + n], 'ws': n, 'walks': True})
    # random-walk measures: connected undirected / strongly connected directed, periodic ones included
    conn = [['named', 'cycle', 4], ['named', 'cycle', 6], ['named', 'cycle', 10], ['named', 'cycle', 7], ['named', 'path', 4], ['named', 'path', 7],
            ['named', 'kab', 2, 5], ['named', 'kab', 3, 3], ['named', 'kab', 3, 4], ['named', 'star', 6], ['named', 'grid', 2, 4],
            ['named', 'hypercube', 3], ['named', 'prufer', 8, seed], ['named', 'prufer', 11, seed + 1], ['named', 'complete', 5],
            ['named', 'wheel', 6], ['named', 'barbell', 3, 2], ['named', 'lollipop', 4, 3]]
    for t in range(80 if thorough else 20):
        n = int(rs.randint(4, nmax + 1))
        conn.append(['named', 'er_connected', n, float(rs.choice([.05, .2, .5])), int(rs.randint(1 << 30))])
    for i, g in enumerate(conn):
        for w in ('bin', 'real', 'logu'):
            out.append({'kind': 'walk', 'g': ['perm', g, seed + i] if i % 2 else g, 'directed': False, 'w': w, 'ws': i,
                        'scale': 1e-10 if (i % 3 == 0 and w == 'real') else 1.0})
    for i, g in enumerate(conn[::3]):
        out.append({'kind': 'walk', 'g': g, 'directed': False, 'w': 'real', 'ws': i, 'faint': [1e-9, 1e-10][i % 2]})
    strong = [['named', 'dcycle', 4], ['named', 'dcycle', 6], ['named', 'dcycle', 5], ['named', 'dcycle_chords', 6, 2, seed],
              ['named', 'two_blobs_dir', 3, seed], ['named', 'dcycle_chords', 8, 8, seed]]
    for t in range(60 if thorough else 15):
        n = int(rs.randint(4, nmax + 1))
        strong.append(['named', 'er_strong', n, float(rs.choice([.05, .2, .5])), int(rs.randint(1 << 30))])
    for i, g in enumerate(strong):
        for w in ('bin', 'real'):
            out.append({'kind': 'walk', 'g': g, 'directed': True, 'w': w, 'ws': i})
    out.append({'kind': 'concurrent', 'g': ['named', 'path', 2], 'directed': False, 'ws': seed, 'schemes': [], 'n': 220 if tier == 'thorough' else 120})
    return out


def run_spectral(case, bct, REC):
    A = G.build(case['g'])
    n = len(A)
    from scipy.linalg import expm
    ev = np.linalg.eigvalsh(A)
    repeated = bool(np.any(np.diff(np.sort(ev)) < 1e-8))
    cls = ('repeated_eigenvalue',) if repeated else ('simple_spectrum',)
    variants = [(A, 'bin'), (G.weigh(A, 'real', case['ws'], True), 'real')]
    if repeated and n >= 3:
        # one weight on every connection (the spectrum stays degenerate) and the upper triangle one ulp away from the
        # lower in a few cells: undirected for every purpose, not bit-for-bit symmetric
        U = A * 0.1
        iu, ju = np.where(np.triu(A, 1))
        for e in range(0, len(iu), max(1, len(iu) // 3)):
            U[iu[e], ju[e]] = np.nextafter(U[iu[e], ju[e]], 1.0)
        variants.append((U, 'const_ulp_asymmetric'))
    for X, wname in variants:
        REC.tag(PROP, 'exec')
        det = {'A': X}
        ok, Cs = call(REC, PROP, 'subgraph_centrality', bct.subgraph_centrality, X)
        if ok:
            exp = np.diag(expm(X))
            REC.check(PROP, 'subgraph_centrality', 'diag_expm', close(Cs, exp, rtol=1e-8, atol=1e-10), dict(det, got=Cs, expected=exp), cls)
        if np.any(X):
            ok, v = call(REC, PROP, 'eigenvector_centrality_und', bct.eigenvector_centrality_und, X)
            if ok:
                v = np.asarray(v)
                lam = float(np.linalg.eigvalsh(X).max())
                real = np.isrealobj(v) or bool(np.all(np.abs(np.imag(v)) < 1e-12))
                vr = np.real(v).astype(float)
                REC.check(PROP, 'eigenvector_centrality_und', 'nonnegative_unit',
                          real and vr.shape == (n,) and bool(np.all(vr >= -1e-12)) and abs(np.linalg.norm(vr) - 1) <= 1e-9, dict(det, got=v), cls)
                if vr.shape == (n,):
                    res = float(np.max(np.abs(X @ vr - lam * vr)))
                    REC.check(PROP, 'eigenvector_centrality_und', 'eigen_equation', res <= 1e-8 * max(1.0, lam), dict(det, got=v, lambda_max=lam, residual=res), cls)
        if wname == 'bin' and (n <= 12 or case.get('walks')):
            ok, res = call(REC, PROP, 'findwalks', bct.findwalks, X)
            if ok:
                Wq, tw, wlq = res
                Wq = np.asarray(Wq)
                good = Wq.shape[:2] == (n, n)
                P = np.eye(n)
                exp_tot = 0.0
                exp_wlq = np.zeros(Wq.shape[2]) if good else None
                if good:
                    for q in range(1, Wq.shape[2]):
                        P = P @ X
                        exp_tot += P.sum()
                        exp_wlq[q] = P.sum()
                        if not (np.array_equal(Wq[:, :, q], P) if n <= 12 else close(Wq[:, :, q], P, rtol=1e-12, atol=0)):
                            good = False
                            break
                REC.check(PROP, 'findwalks', 'matrix_powers', good, dict(det, q=q if n > 1 else None), cls)
                if good:
                    rest = float(Wq[:, :, 0].sum())
                    REC.check(PROP, 'findwalks', 'totals', bool(np.isclose(tw, exp_tot + rest)) and close(np.asarray(wlq)[1:], exp_wlq[1:], rtol=1e-12, atol=0),
                              dict(det, twalk=tw, expected=exp_tot + rest, wlq=wlq), cls)
        if repeated:
            REC.note_nontrivial(PROP, 'spectral', X)
    REC.tag(PROP, 'class:' + cls[0])
    if 3 <= n <= 8 and (case['ws'] % 5 == 0 or int(A.sum()) >= n * (n - 1) - 2):
        # adjacency matrices are naturally bool / small-integer arrays; walk counts are not (K6, length 5: 521)
        dtype_variants_agree(REC, PROP, 'findwalks', bct.findwalks, A)
    if 3 <= n <= 8 and case['ws'] % 7 == 0:
        Xr = G.weigh(A, 'real', case['ws'], True)
        for fn in ('subgraph_centrality', 'eigenvector_centrality_und', 'findwalks'):
            layout_variants_agree(REC, PROP, fn, getattr(bct, fn), A if fn == 'findwalks' else Xr, rtol=0.0 if fn == 'findwalks' else 1e-8)
    if n <= 6:
        REC.sample(PROP, {'kind': 'spectral', 'A': A, 'eigenvalues': ev}, cap=3)


def run_walk(case, bct, REC):
    A = G.build(case['g'])
    directed = case['directed']
    W = G.weigh(A, case['w'], case['ws'], symmetric=not directed) * case.get('scale', 1.0)
    if case['w'] == 'logu':
        W = np.maximum(W, 1e-6 * (A != 0))   # keep the chain numerically irreducible (conditioning, not magnitude, is the point)
    if case.get('faint'):
        # a symmetric backbone and one extra node hanging on two faint ONE-WAY connections (in from node 0, out to
        # node 2): symmetric to any tolerance-based test, not reversible, strongly connected only through 1e-9
        n0 = len(W)
        W2 = np.zeros((n0 + 1, n0 + 1))
        W2[:n0, :n0] = W
        W2[0, n0] = case['faint'] * W.max()
        W2[n0, min(2, n0 - 1)] = 4 * case['faint'] * W.max()      # (another weight on the way out: not reversible)
        W = W2
        directed = True
    n = len(W)
    if not (O.is_strongly_connected(W) if directed else O.is_connected(W)):
        return
    P = W / W.sum(axis=1, keepdims=True)
    evP = np.linalg.eigvals(P)
    periodic = bool(np.sum(np.abs(np.abs(evP) - 1) < 1e-8) > 1)
    cls = ('periodic_chain',) if periodic else ('aperiodic_chain',)
    REC.tag(PROP, 'class:' + cls[0])
    REC.tag(PROP, 'exec')
    det = {'W': W}
    ok, M = call(REC, PROP, 'mean_first_passage_time', bct.mean_first_passage_time, W, _classes=cls)
    if ok:
        M = np.asarray(M)
        good = M.shape == (n, n) and bool(np.all(np.isfinite(M))) and (np.isrealobj(M) or bool(np.all(np.abs(np.imag(M)) < 1e-9)))
        res = None
        if good:
            Mr = np.real(M)
            R = np.zeros((n, n))
            for j in range(n):
                Pj = P.copy()
                Pj[:, j] = 0
                R[:, j] = 1 + Pj @ Mr[:, j] - Mr[:, j]
            off = ~np.eye(n, dtype=bool)
            res = float(np.max(np.abs(R[off])))
            good = res <= 1e-8 * max(1.0, float(np.max(np.abs(Mr))))
        REC.check(PROP, 'mean_first_passage_time', 'first_passage_equation', bool(good), dict(det, got=M, residual=res), cls)
        if good:
            # the same equations solved directly, one target at a time (a residual relative to the largest passage time
            # says little about the small ones): 1e-6, 1e-3 for the ill-conditioned classes (measured on the unchanged
            # routine: up to 1.2e-6 with a 1e-9 bridge)
            Mo = np.zeros((n, n))
            try:
                for j in range(n):
                    idx = [i for i in range(n) if i != j]
                    Mo[idx, j] = np.linalg.solve(np.eye(n - 1) - P[np.ix_(idx, idx)], np.ones(n - 1))
                rt = 1e-3 if (case['w'] == 'logu' or case.get('faint')) else 1e-6
                REC.check(PROP, 'mean_first_passage_time', 'first_passage_direct_solve', close(np.real(M)[off], Mo[off], rtol=rt, atol=0),
                          dict(det, got=M, expected=Mo), cls + (('faint_one_way_bridge',) if case.get('faint') else ()))
            except np.linalg.LinAlgError:
                REC.skip(PROP, 'mean_first_passage_time', 'first_passage_direct_solve')
        ok2, r2 = call(REC, PROP, 'diffusion_efficiency', bct.diffusion_efficiency, W, _classes=cls)
        if ok2 and M.shape == (n, n):
            ge, ed = r2
            off = ~np.eye(n, dtype=bool)
            with np.errstate(all='ignore'):
                exp = np.where(off, 1.0 / np.real(M), 0.0)
            # two separate eigen-solves: with weights over 12 orders of magnitude (condition number of the transition
            # matrix ~1e6) they agree to ~1e-9 only, and not always (sweep seed 3: 3e-10 vs 1.2e-9)
            rt = 1e-6 if case.get('w') == 'logu' else 1e-9
            REC.check(PROP, 'diffusion_efficiency', 'inverse_of_mfpt', close(np.real(ed), exp, rtol=rt, atol=1e-12), dict(det, got=ed), cls)
            REC.check(PROP, 'diffusion_efficiency', 'global_mean', close(np.real(ge), np.real(ed)[off].mean(), rtol=1e-12) and close(np.real(ge), exp[off].mean(), rtol=rt), dict(det, got=ge), cls)
    # PageRank (no dangling columns on these graphs)
    deg = W.sum(axis=0)
    if np.all(deg > 0):
        rs = np.random.RandomState(case['ws'])
        for d in (0.15, 0.5, 0.85, 0.99):
            for fal in (None, rs.rand(n) + 0.05):
                REC.tag(PROP, 'exec')
                ok, r = call(REC, PROP, 'pagerank_centrality', bct.pagerank_centrality, W, d, falff=None if fal is None else fal.copy())
                if not ok:
                    continue
                r = np.asarray(r, dtype=float)
                f = np.ones(n) / n if fal is None else fal / fal.sum()
                REC.check(PROP, 'pagerank_centrality', 'positive_unit_sum', r.shape == (n,) and bool(np.all(r > 0)) and abs(r.sum() - 1) <= 1e-12,
                          dict(det, d=d, got=r))
                if r.shape == (n,):
                    res = float(np.max(np.abs(r - d * (W @ (r / deg)) - (1 - d) * f)))
                    REC.check(PROP, 'pagerank_centrality', 'fixed_point', res <= 1e-10, dict(det, d=d, falff=fal, got=r, residual=res))
        if n <= 12:
            vector_forms_agree(REC, PROP, 'pagerank_centrality', bct.pagerank_centrality, (W, .85), {'falff': rs.rand(n) + 0.05}, 'falff')
        if n <= 20:
            # the same network with nodes that nobody links from (isolated nodes; for directed input also nodes
            # without outgoing links): A D^-1 has zero columns there, the walk loses mass, and the stated equation has
            # no solution of unit sum -- what is still demanded is what the statement says about the result itself:
            # positive, summing to one (the equation itself is not judged there)
            rs2 = np.random.RandomState(case['ws'] + 5)
            for extra in (1, 3):
                m = n + extra
                Wd = np.zeros((m, m))
                pos = np.sort(rs2.choice(m, n, replace=False))
                Wd[np.ix_(pos, pos)] = W
                if directed:
                    v = int(pos[rs2.randint(n)])
                    Wd[:, v] = 0          # v keeps its incoming links and has no outgoing ones
                degd = Wd.sum(axis=0)
                for d in (0.5, 0.85):
                    fal = rs2.rand(m) + 0.05
                    for fa in (None, fal):
                        ok, r = call(REC, PROP, 'pagerank_centrality', bct.pagerank_centrality, Wd, d, falff=None if fa is None else fa.copy(),
                                     _classes=('dangling_nodes',))
                        if not ok:
                            continue
                        r = np.asarray(r, dtype=float)
                        good = r.shape == (m,) and bool(np.all(r > 0)) and abs(r.sum() - 1) <= 1e-12
                        REC.check(PROP, 'pagerank_centrality', 'positive_unit_sum', good, {'W': Wd, 'd': d, 'falff': fa, 'got': r, 'sum': float(np.sum(r))},
                                  ('dangling_nodes',))
    if n <= 9:
        for fn in ('mean_first_passage_time', 'diffusion_efficiency'):
            layout_variants_agree(REC, PROP, fn, getattr(bct, fn), W, rtol=1e-7)
        layout_variants_agree(REC, PROP, 'pagerank_centrality', bct.pagerank_centrality, W, args=(.85,), rtol=1e-9)
    if periodic or directed:
        REC.note_nontrivial(PROP, 'walk', W)
    if n <= 6:
        REC.sample(PROP, {'kind': 'walk', 'W': W, 'periodic': periodic}, cap=3)


def run(case, bct, REC):
    if case.get('kind') == 'concurrent':
        from .common import concurrent_callers_agree
        REC.tag(PROP, 'exec')
        return concurrent_callers_agree(REC, PROP, bct, [('pagerank_centrality', lambda rs, n: (_cc_und(rs, n, False, .2), .85)), ('subgraph_centrality', lambda rs, n: (_cc_und(rs, n, True, .05),)), ('mean_first_passage_time', lambda rs, n: (_cc_und(rs, n, False, .3),))], case['n'], case['ws'])
    if case['kind'] == 'spectral':
        run_spectral(case, bct, REC)
    else:
        run_walk(case, bct, REC)
