"""C13 -- library calls never modify the caller's arrays unless copy=False is requested.

The deciding monitor is the universal immutability monitor of bctmon.monitor (snapshot of every ndarray argument
before a depth-0 call, comparison after the call returned OR raised).  This module is the dedicated driver: a call
recipe for every public function that accepts an array, executed on argument classes that are able to show an
in-place edit, plus a piggyback run of the other properties' workloads under the same monitor.
"""
import importlib
import inspect

import numpy as np

from .. import graphs as G
from ..monitor import CaseTimeout, raw

PROP = 'C13'
RULE = ('one execution = one depth-0 call of a public function observed by the universal immutability monitor (deep '
        'snapshot of every ndarray argument, recursively inside lists/tuples/dicts, compared element-for-element incl. '
        'NaN, signed zero, dtype and shape after the call returned or raised); dedicated driver: every public function '
        'that accepts an array x {undirected, directed, signed} x {binary, weighted} matrices with NONZERO DIAGONAL x '
        'dtypes float64 / float32 / int64 / bool x C order / Fortran order / non-contiguous view, every documented option '
        'value, partitions with arbitrary AND with canonical 1..K int64 labels, distance matrices containing inf; plus '
        'the workloads of the other properties replayed under the monitor; non-trivial = the argument class could show '
        'the mutation (nonzero diagonal, non-canonical dtype/layout, option combination) and the call returned')
EXHAUSTIVE = {}
ASSUMPTIONS = ['only depth-0 calls are judged (a callee may modify its caller\'s private copy)',
               'copy=False of threshold_absolute / threshold_proportional / weight_conversion / binarize / normalize / invert / '
               'autofix / logtransform is exempt', 'aliasing of a result with an argument is not judged',
               'visualization helpers (simulated annealing reordering, file writers) are driven with tiny budgets or skipped']
CASE_TIMEOUT = {'quick': 60.0, 'thorough': 300.0}
ANCHORS = []
SKIP = {'writetoPAJ', 'make_motif34lib', 'get_rng', 'teachers_round', 'pick_four_unique_nodes_quickly', 'makeevenCIJ', 'makefractalCIJ',
        'makerandCIJ_dir', 'makerandCIJ_und', 'makeringlatticeCIJ', 'maketoeplitzCIJ', 'ls2ci'}
PIGGY = ['C01', 'C02', 'C03', 'C06', 'C07', 'C08', 'C09', 'C10', 'C11', 'C12', 'C14', 'C15', 'C16', 'C17', 'C18', 'C19', 'C20', 'C05', 'C04']


REQUIRED = []  # filled below from the recipe tables
MIN_EVAL = {'quick': 1, 'thorough': 1}


def variants(kind, n, seed, diag=True):
    """argument classes able to show an in-place edit"""
    rs = np.random.RandomState(seed)
    directed = 'dir' in kind
    if 'signed' in kind:
        W = rs.randn(n, n)
        if not directed:
            W = np.triu(W, 1)
            W = W + W.T
        A = W
    else:
        A0 = G.er_strong(n, .35, seed) if directed else G.er_connected(n, .35, seed)
        A = A0 if 'bin' in kind else G.weigh(A0, 'real', seed, not directed)
    A = A.copy()
    if diag:
        A[np.arange(n), np.arange(n)] = rs.randint(1, 4, size=n) if 'bin' not in kind else 1
        if 'signed' in kind and seed % 2 == 0:
            # self-connections that cancel exactly (trace 0 with a nonzero diagonal)
            d = np.zeros(n)
            d[:4] = [0.5, -0.5, 0.25, -0.25]
            A[np.arange(n), np.arange(n)] = d
    else:
        np.fill_diagonal(A, 0)
    out = [('f64_C', A.copy()), ('f64_F', np.asfortranarray(A)), ('f64_view', np.kron(A, np.ones((2, 2)))[::2, ::2]),
           ('f32', A.astype(np.float32))]
    if 'bin' in kind:
        out += [('i64', A.astype(np.int64)), ('bool', A.astype(bool))]
    elif 'signed' not in kind:
        out += [('i64', np.ceil(A * 4).astype(np.int64))]
    return out


KINDS = ['und_bin', 'und_wei', 'dir_bin', 'dir_wei', 'signed_und', 'signed_dir']

# functions whose first (and only required) argument is a connection matrix; value = list of kwargs dicts
MATRIX1 = {
    'assortativity_bin': [{'flag': f} for f in range(5)], 'assortativity_wei': [{'flag': f} for f in range(5)],
    'betweenness_bin': [{}], 'betweenness_wei': [{}], 'breadthdist': [{}], 'clustering_coef_bd': [{}], 'clustering_coef_bu': [{}],
    'clustering_coef_wd': [{}], 'clustering_coef_wu': [{}],
    'clustering_coef_wu_sign': [{'coef_type': c} for c in ('default', 'zhang', 'costantini')],
    'degrees_dir': [{}], 'degrees_und': [{}], 'density_dir': [{}], 'density_und': [{}], 'diffusion_efficiency': [{}],
    'distance_bin': [{}], 'distance_wei': [{}], 'distance_wei_floyd': [{'transform': t} for t in (None, 'inv', 'log')],
    'edge_betweenness_bin': [{}], 'edge_betweenness_wei': [{}], 'edge_nei_overlap_bd': [{}], 'edge_nei_overlap_bu': [{}],
    'efficiency_bin': [{'local': False}, {'local': True}], 'efficiency_wei': [{'local': l} for l in (False, True, 'original')],
    'eigenvector_centrality_und': [{}], 'erange': [{}], 'findwalks': [{}], 'flow_coef_bd': [{}], 'get_components': [{}],
    'get_components_old': [{'no_depend': True}], 'jdegree': [{}], 'kcoreness_centrality_bd': [{}], 'kcoreness_centrality_bu': [{}],
    'local_assortativity_wu_sign': [{}], 'matching_ind': [{}], 'matching_ind_und': [{}], 'mean_first_passage_time': [{}],
    'motif3funct_bin': [{}], 'motif3funct_wei': [{}], 'motif3struct_bin': [{}], 'motif3struct_wei': [{}],
    'motif4funct_bin': [{}], 'motif4funct_wei': [{}], 'motif4struct_bin': [{}], 'motif4struct_wei': [{}],
    'number_of_components': [{}], 'reachdist': [{}, {'ensure_binary': False}], 'rich_club_bd': [{}, {'klevel': 3}],
    'rich_club_bu': [{}, {'klevel': 3}], 'rich_club_wd': [{}, {'klevel': 3}], 'rich_club_wu': [{}, {'klevel': 3}],
    'rout_efficiency': [{'transform': t} for t in (None, 'inv', 'log')],
    'search_information': [{'transform': t, 'has_memory': h} for t in (None, 'inv') for h in (False, True)],
    'strengths_dir': [{}], 'strengths_und': [{}], 'strengths_und_sign': [{}], 'subgraph_centrality': [{}],
    'transitivity_bd': [{}], 'transitivity_bu': [{}], 'transitivity_wd': [{}], 'transitivity_wu': [{}],
    'autofix': [{}, {'copy': False}], 'binarize': [{}, {'copy': False}], 'invert': [{}, {'copy': False}],
    'normalize': [{}, {'copy': False}], 'logtransform': [{}, {'copy': False}], 'link_communities': [{}, {'type_clustering': 'complete'}],
    'path_transitivity': [{}, {'transform': 'inv'}], 'cuberoot': [{}], 'modularity_und': [{}, {'gamma': 1.3}], 'modularity_dir': [{}],
    'modularity_louvain_und': [{'seed': 1}, {'seed': 1, 'hierarchy': True}], 'modularity_louvain_dir': [{'seed': 1}],
    'modularity_louvain_und_sign': [{'seed': 1, 'qtype': q} for q in ('sta', 'gja')], 'community_louvain': [{'seed': 1}],
    'modularity_finetune_und': [{'seed': 1}], 'modularity_finetune_dir': [{'seed': 1}], 'modularity_finetune_und_sign': [{'seed': 1}],
    'modularity_probtune_und_sign': [{'seed': 1}], 'core_periphery_dir': [{'seed': 1}], 'null_model_und_sign': [{'seed': 1, 'bin_swaps': 1}],
    'null_model_dir_sign': [{'seed': 1, 'bin_swaps': 1}], 'backbone_wu': [{'avgdeg': 2}],
}
# which matrix kinds make sense for a function (default: all six)
ONLY = {
    'null_model_und_sign': ['signed_und'], 'null_model_dir_sign': ['signed_dir'], 'modularity_louvain_und_sign': ['signed_und', 'und_wei'],
    'modularity_finetune_und_sign': ['signed_und'], 'modularity_probtune_und_sign': ['signed_und'],
    'modularity_louvain_und': ['und_bin', 'und_wei'], 'modularity_finetune_und': ['und_bin', 'und_wei'], 'modularity_und': ['und_bin', 'und_wei'],
    'modularity_louvain_dir': ['dir_bin', 'dir_wei', 'und_wei'], 'modularity_finetune_dir': ['dir_bin', 'dir_wei'], 'modularity_dir': ['dir_bin', 'dir_wei'],
    'community_louvain': ['und_bin', 'und_wei', 'dir_wei'], 'link_communities': ['und_wei', 'dir_wei'],
    'motif3funct_bin': ['dir_bin'], 'motif3struct_bin': ['dir_bin'], 'motif4funct_bin': ['dir_bin'], 'motif4struct_bin': ['dir_bin'],
    'motif3funct_wei': ['dir_wei'], 'motif3struct_wei': ['dir_wei'], 'motif4funct_wei': ['dir_wei'], 'motif4struct_wei': ['dir_wei'],
    'backbone_wu': ['und_wei'], 'logtransform': ['und_wei', 'dir_wei'],
}
NOSEL = {'modularity_finetune_und', 'modularity_finetune_dir', 'modularity_finetune_und_sign', 'modularity_probtune_und_sign',
         'modularity_louvain_und', 'modularity_louvain_dir', 'modularity_louvain_und_sign', 'community_louvain', 'modularity_und', 'modularity_dir'}


REQUIRED[:] = ['%s/args_unchanged' % f for f in sorted(MATRIX1) if f not in ('path_transitivity',)] + \
    ['%s/args_unchanged' % f for f in ('participation_coef', 'module_degree_zscore', 'participation_coef_sign', 'diversity_coef_sign',
                                      'gateway_coef_sign', 'modularity_und_sign', 'charpath', 'retrieve_shortest_path', 'navigation_wu',
                                      'kcore_bu', 'kcore_bd', 'score_wu', 'threshold_absolute', 'threshold_proportional', 'weight_conversion',
                                      'gtom', 'pagerank_centrality', 'randmio_und', 'randmio_dir', 'randmio_und_connected',
                                      'randmio_dir_connected', 'randmio_und_signed', 'randmio_dir_signed', 'randomizer_bin_und',
                                      'latmio_und', 'latmio_dir', 'latmio_und_connected', 'latmio_dir_connected',
                                      'randomize_graph_partial_und', 'partition_distance', 'agreement', 'ci2ls', 'consensus_und',
                                      'nbs_bct', 'makerandCIJdegreesfixed', 'breadth')]


def special(bct, name, n, seed):
    """explicit recipes: list of (label, thunk)"""
    rs = np.random.RandomState(seed)
    out = []
    und = [v for _, v in variants('und_wei', n, seed)]
    undb = [v for _, v in variants('und_bin', n, seed)]
    dirw = [v for _, v in variants('dir_wei', n, seed)]
    dirb = [v for _, v in variants('dir_bin', n, seed)]
    sgn = [v for _, v in variants('signed_und', n, seed)]
    cis = [rs.randint(0, 3, size=n) * 7 + 5, (np.arange(n) % 3 + 1).astype(np.int64), (np.arange(n) % 2 + 1).astype(np.int32),
           (np.arange(n) % 3 + 1).astype(float), np.arange(n) % 3]

    def add(label, th):
        out.append((label, th))
    if name in ('participation_coef', 'module_degree_zscore', 'participation_coef_sign', 'diversity_coef_sign', 'gateway_coef_sign',
                'modularity_und_sign', 'reorder_mod'):
        mats = {'participation_coef': und + dirw, 'module_degree_zscore': und + dirw, 'reorder_mod': und[:2]}.get(name, sgn)
        opts = {'participation_coef': [{'degree': d} for d in ('undirected', 'in', 'out')], 'module_degree_zscore': [{'flag': f} for f in range(4)],
                'gateway_coef_sign': [{'centrality_type': c} for c in ('degree', 'betweenness')],
                'modularity_und_sign': [{'qtype': q} for q in ('sta', 'smp')]}.get(name, [{}])
        for mi, M in enumerate(mats):
            for ci in cis:
                for kw in opts:
                    add('m%d' % mi, lambda M=M, ci=ci, kw=kw: getattr(bct, name)(M, ci, **kw))
    elif name in NOSEL and name not in ('modularity_louvain_und', 'modularity_louvain_dir', 'modularity_louvain_und_sign'):
        mats = {'modularity_finetune_dir': dirw, 'modularity_dir': dirw, 'modularity_finetune_und_sign': sgn, 'modularity_probtune_und_sign': sgn,
                'community_louvain': und}.get(name, und)
        key = 'kci' if name in ('modularity_und', 'modularity_dir') else 'ci'
        for M in mats[:3]:
            for ci in cis:
                add('ci', lambda M=M, ci=ci: getattr(bct, name)(M, **{key: ci}) if name in ('modularity_und', 'modularity_dir')
                    else getattr(bct, name)(M, **{key: ci, 'seed': 2}))
    elif name == 'charpath':
        for M in und[:2] + dirb[:2]:
            D = bct.distance_bin(G.with_isolated(np.where(M != 0, 1.0, 0.0), 1))
            for a in (False, True):
                for b in (False, True):
                    for X in (D.copy(), np.asfortranarray(D), D.astype(np.float32)):
                        add('D', lambda X=X, a=a, b=b: bct.charpath(X, include_diagonal=a, include_infinite=b))
    elif name == 'retrieve_shortest_path':
        for M in und[:1] + dirw[:1]:
            np.fill_diagonal(M, 0)
            S, h, P = bct.distance_wei_floyd(np.array(M, dtype=float))
            add('hp', lambda h=h, P=P: [bct.retrieve_shortest_path(s, t, h, P) for s in range(3) for t in range(3) if s != t])
    elif name == 'navigation_wu':
        pts = rs.rand(n, 2)
        D = np.sqrt(((pts[:, None] - pts[None]) ** 2).sum(-1))
        for M in und[:4]:
            for mh in (None, 2):
                add('LD', lambda M=M, D=D, mh=mh: bct.navigation_wu(M, D.copy(), max_hops=mh))
    elif name in ('kcore_bu', 'kcore_bd'):
        for M in (undb if name == 'kcore_bu' else dirb):
            for k in (1, 2, 3):
                for peel in (False, True):
                    add('k', lambda M=M, k=k, peel=peel: getattr(bct, name)(M, k, peel=peel))
    elif name == 'score_wu':
        for M in und:
            for s in (.5, 1.5):
                add('s', lambda M=M, s=s: bct.score_wu(M, s))
    elif name in ('threshold_absolute', 'threshold_proportional'):
        for M in und + dirw:
            for cp in (True, False):
                add('thr', lambda M=M, cp=cp: getattr(bct, name)(M, .3, copy=cp))
    elif name == 'weight_conversion':
        for M in und[:3] + dirw[:3]:
            for cmd in ('binarize', 'normalize', 'lengths'):
                for cp in (True, False):
                    add(cmd, lambda M=M, cmd=cmd, cp=cp: bct.weight_conversion(M, cmd, copy=cp))
    elif name == 'gtom':
        for M in undb + und[:2]:
            for st in (0, 1, 2, 3, 4):
                add('st', lambda M=M, st=st: bct.gtom(M, st))
    elif name == 'pagerank_centrality':
        for M in und + dirw:
            add('d', lambda M=M: bct.pagerank_centrality(M, .85))
            f = rs.rand(n)
            add('falff', lambda M=M, f=f: bct.pagerank_centrality(M, .5, falff=f))
    elif name in ('randmio_und', 'randmio_und_connected', 'randmio_und_signed', 'randomizer_bin_und'):
        for M in (undb if name == 'randomizer_bin_und' else (sgn if 'signed' in name else und + undb[:2])):
            add('itr', lambda M=M: getattr(bct, name)(M, 0.7 if name == 'randomizer_bin_und' else 1, seed=3))
    elif name in ('randmio_dir', 'randmio_dir_connected', 'randmio_dir_signed'):
        for M in ([v for _, v in variants('signed_dir', n, seed)] if 'signed' in name else dirw + dirb[:2]):
            add('itr', lambda M=M: getattr(bct, name)(M, 1, seed=3))
    elif name in ('latmio_und', 'latmio_und_connected', 'latmio_dir', 'latmio_dir_connected'):
        Dd = rs.rand(n, n)
        Dd = Dd + Dd.T
        for M in (und if 'und' in name else dirw):
            add('itr', lambda M=M: getattr(bct, name)(M, 1, seed=3))
            add('D', lambda M=M, Dd=Dd: getattr(bct, name)(M, 1, D=Dd, seed=3))
    elif name == 'randomize_graph_partial_und':
        for M in und[:4]:
            B = np.zeros((n, n))
            add('B', lambda M=M, B=B: bct.randomize_graph_partial_und(M, B, 2, seed=3))
    elif name == 'partition_distance':
        for a in cis:
            for b in cis:
                add('cc', lambda a=a, b=b: bct.partition_distance(a, b))
    elif name in ('agreement', 'dummyvar'):
        for dt in (np.int64, np.int32, float):
            C = rs.randint(1, 4, size=(n, 5)).astype(dt)
            add('ci', lambda C=C: getattr(bct, name)(C))
            add('ciF', lambda C=C: getattr(bct, name)(np.asfortranarray(C)))
            if name == 'agreement':
                add('buf', lambda C=C: bct.agreement(C, buffsz=2))
    elif name == 'agreement_weighted':
        C = rs.randint(1, 4, size=(4, n))
        w = rs.rand(4)
        add('cw', lambda: bct.agreement_weighted(C, w))
    elif name == 'ci2ls':
        for ci in cis:
            add('ci', lambda ci=ci: bct.ci2ls(ci))
    elif name == 'consensus_und':
        for M in und[:3]:
            X = np.abs(M) / np.abs(M).max()
            add('D', lambda X=X: bct.consensus_und(X, .3, reps=4, seed=1))
    elif name == 'clique_communities':
        for M in undb[:4]:
            add('cq', lambda M=M: bct.clique_communities(M, 3))
    elif name in ('corr_flat_und', 'corr_flat_dir', 'dice_pairwise_und'):
        A1, A2 = (und[0], und[1].T.copy()) if 'dir' not in name else (dirw[0], dirw[1])
        for X, Y in ((A1, A2), (np.asfortranarray(A1), A2.astype(np.float32))):
            add('aa', lambda X=X, Y=Y: getattr(bct, name)(X, Y))
    elif name == 'breadth':
        for M in undb + dirb:
            add('src', lambda M=M: bct.breadth(M, 0))
    elif name == 'findpaths':
        for M in dirb[:3]:
            src = np.array([0, 1])
            add('fp', lambda M=M, src=src: bct.findpaths(M, 3, src))
    elif name == 'cycprob':
        try:
            Pq = bct.findpaths(dirb[0].astype(float), 3, np.arange(n))[0]
            add('Pq', lambda Pq=Pq: bct.cycprob(Pq))
        except Exception:  # noqa
            pass
    elif name == 'find_motif34':
        add('m', lambda: bct.find_motif34(3, 3))
        add('m2', lambda: bct.find_motif34(np.array([[0, 1, 0], [1, 0, 1], [0, 1, 0]])))
    elif name == 'resource_efficiency_bin':
        for M in undb[:3]:
            add('lam', lambda M=M: bct.resource_efficiency_bin(M, .5))
    elif name == 'makerandCIJdegreesfixed':
        Ad = (dirb[0] != 0)
        np.fill_diagonal(Ad, False)
        i, o = Ad.sum(0).astype(np.int64), Ad.sum(1).astype(np.int64)
        add('io', lambda: bct.makerandCIJdegreesfixed(i, o, seed=2))
    elif name == 'nbs_bct':
        x = rs.randn(5, 5, 4)
        x = x + np.transpose(x, (1, 0, 2))
        y = rs.randn(5, 5, 4)
        y = y + np.transpose(y, (1, 0, 2))
        x[0, 1] += 3
        x[1, 0] += 3
        for pr in (False, True):
            add('xy', lambda pr=pr: bct.nbs_bct(x, y, 1.0, k=4, paired=pr, seed=1))
        add('xyF', lambda: bct.nbs_bct(np.asfortranarray(x), np.asfortranarray(y), 1.0, k=4, seed=1))
    elif name == 'rentian_scaling':
        pts = rs.rand(n, 3)
        for M in undb[:3]:
            add('xyz', lambda M=M: bct.rentian_scaling(M, pts, 8, seed=1))
    elif name in ('generative_model', 'evaluate_generative_model'):
        pts = rs.rand(n, 3)
        Dd = np.sqrt(((pts[:, None] - pts[None]) ** 2).sum(-1))
        sa = np.zeros((n, n))
        sa[0, 1] = sa[1, 0] = 1
        eta, gam = np.array([-2.0]), np.array([.3])
        if name == 'generative_model':
            for mt in ('euclidean', 'matching', 'neighbors', 'deg-avg', 'clu-avg'):
                for cp in (True, False):
                    add(mt, lambda mt=mt, cp=cp: bct.generative_model(sa.copy() if False else sa, Dd, 6, eta, gam, model_type=mt, copy=cp, seed=1))
        else:
            add('ev', lambda: bct.evaluate_generative_model(sa, (undb[0] != 0).astype(float), Dd, eta, gam, seed=1))
    elif name == 'generate_fc':
        add('sc', lambda: bct.generate_fc(und[0], .5, seed=1))
    elif name in ('align_matrices', 'reorder_matrix', 'reorderMAT', 'grid_communities', 'adjacency_plot_und'):
        if name == 'align_matrices':
            add('mm', lambda: bct.align_matrices(und[0], und[1], H=20))
        elif name == 'reorder_matrix':
            add('m', lambda: bct.reorder_matrix(und[0], H=20))
        elif name == 'reorderMAT':
            add('m', lambda: bct.reorderMAT(und[0], H=20))
        elif name == 'grid_communities':
            add('c', lambda: bct.grid_communities(cis[1]))
    elif name == 'autofix':
        # what the routine is for: matrices with inf / nan entries, nearly symmetric ones, nearly binary ones
        for tag, M in (('und', und[0]), ('dir', dirw[0])):
            X = np.array(M, dtype=float)
            X[0, 1] = np.inf
            X[1, 0] = np.nan
            X[2, 2] = -np.inf
            add('nonfinite:' + tag, lambda X=X: bct.autofix(X))
            Y = np.array(M, dtype=float) * (1 + 1e-12 * np.triu(np.ones(M.shape), 1))
            add('nearly_symmetric:' + tag, lambda Y=Y: bct.autofix(Y))
    elif name == 'participation_coef_sparse':
        try:
            import scipy.sparse as sp
            M = sp.csr_matrix(und[0])
            add('sp', lambda: bct.participation_coef_sparse(M, cis[1]))
            # the documented sparse input in the storage classes and integer widths a count matrix comes in
            cnt = np.round(np.abs(und[0]) * 7)
            for fmt in (sp.csr_matrix, sp.csc_matrix):
                for dt in (np.int16, np.int32, np.int64, np.float32, np.float64, np.uint8):
                    for deg in ('undirected', 'in', 'out'):
                        add('sp:%s:%s:%s' % (fmt.__name__, np.dtype(dt).name, deg),
                            lambda fmt=fmt, dt=dt, deg=deg: bct.participation_coef_sparse(fmt(cnt.astype(dt)), cis[1], deg))
        except Exception:  # noqa
            pass
    return out


def all_public(bct):
    out = []
    for n, f in vars(bct).items():
        g = raw(f)
        if not n.startswith('_') and inspect.isfunction(g) and getattr(g, '__module__', '').startswith('bct'):
            out.append(n)
    return sorted(out)


def cases(tier, seed):
    from .. import loader
    bct = loader.load()
    thorough = tier == 'thorough'
    out = []
    for name in all_public(bct):
        if name in SKIP:
            continue
        for rep in range(4 if thorough else 2):
            out.append({'f': name, 'kind': 'driver', 'n': 6 + rep, 'rs': seed * 10 + rep})
    if thorough:
        import glob
        import os
        files = sorted(os.path.relpath(f, loader.REPO) for f in glob.glob(os.path.join(loader.REPO, 'test', '*_test.py'))
                       if not f.endswith('very_long_test.py') and not f.endswith('duecredit_test.py'))
        for f in files:
            out.append({'f': 'repo_tests:' + f, 'kind': 'repo_tests', 'files': [f]})
    # piggyback: the other properties' workloads under the same universal monitor
    for P in PIGGY:
        try:
            mod = importlib.import_module('bctmon.props.' + P)
        except ImportError:
            continue
        cs = mod.cases('quick', seed)
        step = max(1, len(cs) // (400 if thorough else 60))
        for c in cs[seed % step::step]:
            out.append({'f': 'piggy:' + P, 'kind': 'piggy', 'P': P, 'case': c})
    return out


def run_repo_tests(case, bct, REC):
    """the repository's own tests (real sample matrices) under the universal monitors, in a subprocess"""
    import json, os, subprocess, sys, tempfile
    from .. import loader
    here = os.path.dirname(os.path.dirname(os.path.dirname(os.path.abspath(__file__))))
    work = os.path.join(here, '.work')
    os.makedirs(work, exist_ok=True)
    fd, dump = tempfile.mkstemp(suffix='.json', dir=work)
    os.close(fd)
    env = dict(os.environ)
    env['PYTHONPATH'] = here + os.pathsep + loader.REPO
    env['BCTMON_DUMP'] = dump
    env['BCT_REPO'] = loader.REPO
    try:
        subprocess.run([sys.executable, '-m', 'pytest', '-q', '-x' if False else '-q', '-p', 'no:cacheprovider', '-p', 'bctmon.pytest_plugin',
                        '--timeout=900', '--continue-on-collection-errors'] + case['files'], cwd=loader.REPO, env=env,
                       stdout=subprocess.DEVNULL, stderr=subprocess.DEVNULL, timeout=case.get('timeout', 1500))
        d = json.load(open(dump))
    except Exception as e:  # noqa
        REC.tag(PROP, 'repo_tests_unavailable:%s' % type(e).__name__)
        return
    finally:
        try:
            os.remove(dump)
        except OSError:
            pass
    n = 0
    for key, v in d['counts']:
        c = REC.counts.setdefault(tuple(key), [0, 0])
        c[0] += v[0]
        c[1] += v[1]
        n += v[0]
    for k, v in d.get('skips', []):
        kk = (k[0], k[1], k[2], tuple(k[3]))
        REC.skips[kk] = REC.skips.get(kk, 0) + v
    REC.witness += d['witness']
    for fn, c in d['calls'].items():
        REC.calls[fn] = REC.calls.get(fn, 0) + c
    REC.tag(PROP, 'repo_tests_monitor_evaluations', n)
    REC.tag(PROP, 'exec', sum(d['calls'].values()))


def run(case, bct, REC):
    if case['kind'] == 'repo_tests':
        return run_repo_tests(case, bct, REC)
    if case['kind'] == 'piggy':
        mod = importlib.import_module('bctmon.props.' + case['P'])
        before = REC.counts.get((PROP, '*', '*'))
        mod.run(case['case'], bct, REC)
        REC.tag(PROP, 'piggyback_cases:' + case['P'])
        return
    name = case['f']
    n, seed = case['n'], case['rs']
    f = getattr(bct, name)
    calls = []
    if name in MATRIX1:
        for kind in ONLY.get(name, KINDS):
            for vname, M in variants(kind, n, seed):
                for kw in MATRIX1[name]:
                    calls.append(('%s/%s' % (kind, vname), lambda M=M, kw=kw: f(M, **kw)))
    calls += special(bct, name, n, seed)
    if not calls:
        REC.tag(PROP, 'no_recipe:' + name)
        return
    returned = raised = 0
    for label, th in calls:
        REC.tag(PROP, 'exec')
        try:
            th()
            returned += 1
        except CaseTimeout:
            raise
        except Exception:  # noqa
            raised += 1
    # the same calls from a caller that runs numpy in strict mode (np.seterr(all='raise')): a routine that divides by a
    # zero strength now raises half-way through -- "returned or raised", the arguments must be as they were
    strict_raised = 0
    for label, th in calls:
        REC.tag(PROP, 'exec')
        try:
            with np.errstate(all='raise'):
                th()
        except CaseTimeout:
            raise
        except FloatingPointError:
            strict_raised += 1
        except Exception:  # noqa
            pass
    REC.tag(PROP, 'strict_mode_calls', len(calls))
    REC.tag(PROP, 'strict_mode_calls_raised_floating_point_error', strict_raised)
    REC.tag(PROP, 'calls_returned', returned)
    REC.tag(PROP, 'calls_raised', raised)
    if returned:
        REC.note_nontrivial(PROP, name, n, seed)
    REC.sample(PROP, {'function': name, 'calls': len(calls), 'returned': returned, 'raised': raised,
                      'argument_classes': sorted(set(l for l, _ in calls))[:12]}, cap=6)
