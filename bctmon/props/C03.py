"""C03 -- shortest-path distance matrices equal true minimum path lengths."""
import numpy as np

from ..monitor import CaseTimeout

from .. import graphs as G
from .. import oracles as O
from .common import call, close, dtype_variants_agree, layout_variants_agree, padding_invariant

PROP = 'C03'
ANCHORS = ['distance_bin', 'distance_wei', 'distance_wei_floyd', 'breadthdist', 'reachdist', 'charpath',
           'efficiency_bin', 'efficiency_wei', 'rout_efficiency']
RULE = ('one execution = all distance routines on one length/weight matrix, compared entry by entry with an independent '
        'min-plus closure and an exact-hop table; inputs: every labelled undirected graph on <=5 (quick) / 6 (thorough) '
        'nodes and directed graph on <=3 / 4 nodes, each binary and with tied small-integer lengths, structured graphs '
        '(paths, cycles, DAGs, unions, isolated nodes, one-way bridges), random graphs, transforms None/inv/log; '
        'non-trivial = the graph has an unreachable ordered pair, or two minimum-length paths with different hop counts, '
        'or is asymmetric; distinct = distinct matrices')
EXHAUSTIVE = {'quick': 'all labelled undirected graphs on <=5 nodes and all directed graphs on <=3 nodes',
              'thorough': 'all labelled undirected graphs on <=6 nodes and all directed graphs on <=4 nodes'}
ASSUMPTIONS = ['float64 input with empty diagonal; positive lengths; weights in (0,1] for the transforms',
               'only off-diagonal entries of breadthdist/reachdist are compared (their diagonal is the shortest cycle)',
               'a hop count must be the hop count of SOME minimum-length path', 'charpath eccentricity/radius not judged',
               'a pair at distance 0 (weight exactly 1 under the log transform) has efficiency +inf, and so has the mean']
REQUIRED = ['distance_bin/distances', 'distance_wei/distances', 'distance_wei/hop_counts', 'distance_wei_floyd/distances',
            'distance_wei_floyd/hop_counts', 'breadthdist/distances', 'breadthdist/reach_flag', 'reachdist/distances',
            'reachdist/reach_flag', 'charpath/lambda', 'charpath/efficiency', 'efficiency_bin/global',
            'efficiency_wei/global', 'rout_efficiency/global', 'rout_efficiency/pairwise']
CASE_TIMEOUT = {'quick': 30.0, 'thorough': 900.0}



def _cc_und(rs, n, binary=False, p=.15):
    A = np.triu((rs.rand(n, n) < p).astype(float), 1)
    A[np.arange(n - 1), np.arange(1, n)] = 1      # a spanning path keeps it connected
    W = A if binary else A * (rs.rand(n, n) * .9 + .1)
    return W + W.T


def cases(tier, seed):
    thorough = tier == 'thorough'
    out = []
    un = 6 if thorough else 5
    dn = 4 if thorough else 3
    for n in range(2, un + 1):
        for bits in G.all_masks(n, False):
            out.append({'g': ['mask', n, bits, False], 'directed': False, 'ws': bits % 1000, 'schemes': ['bin', 'int']})
    for n in range(2, dn + 1):
        for bits in G.all_masks(n, True):
            out.append({'g': ['mask', n, bits, True], 'directed': True, 'ws': bits % 1000, 'schemes': ['bin', 'int']})
    nmax = 40 if thorough else 14
    rs = np.random.RandomState(seed + 303)
    recs = [(g, False) for g in G.structured_und(min(nmax, 16), seeds=(seed,))] + \
           [(g, True) for g in G.structured_dir(min(nmax, 14), seeds=(seed,))]
    for t in range(150 if thorough else 40):
        n = int(rs.randint(4, nmax + 1))
        p = float(rs.choice([.05, .1, .2, .3, .5, .8]))
        d = bool(rs.rand() < .5)
        recs.append((['er', n, p, d, int(rs.randint(1 << 30))], d))
    for i, (g, d) in enumerate(recs):
        out.append({'g': g, 'directed': d, 'ws': seed * 100 + i, 'schemes': ['bin', 'int', 'dyad', 'real', 'neartie', 'bigint', 'logu', 'const']})
    # sizes beyond any plausible fast-path threshold (hop tables are skipped there: O(n^4) oracle)
    for n in ((130, 260, 300) if thorough else (260,)):
        for d in (False, True):
            out.append({'g': ['er', n, 2.5 / n, d, seed + n], 'directed': d, 'ws': n, 'schemes': ['bin', 'int'], 'big': True})
    for g in G.blob_chains(300 if thorough else 100):
        out.append({'g': g, 'directed': False, 'ws': 1, 'schemes': ['bin'], 'big': True})
    # a dense part and a far tail in ONE component (a 40-clique with a tail of 160 / 260 nodes): walk counts of the clique
    # and the single walk to the end of the tail live in the same matrix, 300 orders of magnitude apart
    for k, t in ((40, 260), (30, 160)) + (((50, 500),) if thorough else ()):
        out.append({'g': ['named', 'lollipop', k, t], 'directed': False, 'ws': 1, 'schemes': ['bin'], 'big': True})
    for g in G.many_paths(200 if thorough else 131):
        out.append({'g': g, 'directed': g[-1] is True, 'ws': 1, 'schemes': ['bin', 'int']})
    out.append({'kind': 'degenerate', 'g': ['named', 'path', 2], 'directed': False, 'ws': 0, 'schemes': []})
    out.append({'kind': 'concurrent', 'g': ['named', 'path', 2], 'directed': False, 'ws': seed, 'schemes': [], 'n': 110 if tier == 'thorough' else 60})
    if thorough:
        # a directed chain just below the depth at which reachdist's own recursion gives out (about 985 with the default
        # recursion limit): three minutes for one call, the only way to see what happens near that limit
        out.append({'kind': 'deep_chain', 'g': ['named', 'path', 2], 'directed': True, 'ws': 0, 'schemes': [], 'n': 940})
    return out


def mean_offdiag(M):
    n = len(M)
    if n < 2:
        return np.nan
    return M[~np.eye(n, dtype=bool)].mean()


def check_matrix(REC, bct, A, L, scheme, directed, big=False):
    """L: length matrix on the support A (0 = absent)."""
    n = len(L)
    exact = scheme in ('bin', 'int', 'dyad', 'neartie', 'bigint', 'const')
    rtol = 0.0 if exact else 1e-12
    D = O.floyd(L)
    H = None if big else O.hop_sets(L, D, rtol=rtol)
    off = ~np.eye(n, dtype=bool)
    fin = np.isfinite(D)
    det = {'L': L}

    def same_dist(X):
        X = np.asarray(X, dtype=float)
        if X.shape != D.shape:
            return False
        if not np.array_equal(np.isfinite(X)[off], fin[off]):
            return False
        m = off & fin
        if exact:
            return bool(np.array_equal(X[m], D[m]))
        return bool(np.allclose(X[m], D[m], rtol=1e-12, atol=0))

    def hops_ok(Bm):
        Bm = np.asarray(Bm)
        if Bm.shape != D.shape:
            return False
        if H is None:   # big graphs: only "0 exactly for the diagonal and for unreachable pairs, >= 1 otherwise"
            return bool(np.all((Bm == 0) == (~fin | ~off)))
        for i in range(n):
            for j in range(n):
                if i == j:
                    if Bm[i, j] != 0:
                        return False
                elif fin[i, j]:
                    if int(Bm[i, j]) != Bm[i, j] or int(Bm[i, j]) not in H[i][j]:
                        return False
                elif Bm[i, j] != 0:
                    return False
        return True

    REC.tag(PROP, 'exec')
    if 3 <= n <= 9 and scheme in ('int', 'real'):
        for fname in ('distance_wei', 'distance_wei_floyd', 'rout_efficiency', 'distance_bin', 'reachdist', 'breadthdist', 'efficiency_wei'):
            layout_variants_agree(REC, PROP, fname, getattr(bct, fname), L)
    if 3 <= n <= 9 and scheme == 'int':
        # integer lengths / connection counts held in integer arrays (the weighted routines invert them internally)
        dtype_variants_agree(REC, PROP, 'distance_wei', bct.distance_wei, L, exact=False, float32=False)
        dtype_variants_agree(REC, PROP, 'distance_wei_floyd', bct.distance_wei_floyd, L, exact=False, float32=False)
        dtype_variants_agree(REC, PROP, 'distance_wei_floyd', bct.distance_wei_floyd, L, kwargs={'transform': 'inv'}, exact=False, float32=False)
        dtype_variants_agree(REC, PROP, 'efficiency_wei', bct.efficiency_wei, L, exact=False, float32=False)
        dtype_variants_agree(REC, PROP, 'rout_efficiency', bct.rout_efficiency, L, kwargs={'transform': 'inv'}, exact=False, float32=False)
    # ---- distance_wei (any scheme; lengths)
    ok, res = call(REC, PROP, 'distance_wei', bct.distance_wei, L)
    if ok:
        Dw, Bw = res
        REC.check(PROP, 'distance_wei', 'distances', same_dist(Dw), dict(det, got=Dw, expected=D))
        REC.check(PROP, 'distance_wei', 'zero_diagonal', bool(np.all(np.diag(np.asarray(Dw)) == 0)), dict(det, got=Dw))
        REC.check(PROP, 'distance_wei', 'hop_counts', hops_ok(Bw), dict(det, got=Bw, D=D))
    # ---- floyd, no transform
    ok, res = call(REC, PROP, 'distance_wei_floyd', bct.distance_wei_floyd, L)
    if ok:
        S, hp, Pm = res
        REC.check(PROP, 'distance_wei_floyd', 'distances', same_dist(S), dict(det, got=S, expected=D))
        REC.check(PROP, 'distance_wei_floyd', 'zero_diagonal', bool(np.all(np.diag(np.asarray(S)) == 0)), dict(det, got=S))
        REC.check(PROP, 'distance_wei_floyd', 'hop_counts', hops_ok(hp), dict(det, got=hp, D=D))
    # ---- routing efficiency, no transform
    with np.errstate(all='ignore'):
        inv = np.where(off, 1.0 / D, 0.0)
    ok, res = call(REC, PROP, 'rout_efficiency', bct.rout_efficiency, L)
    if ok and n >= 2:
        GE, ER, _ = res
        REC.check(PROP, 'rout_efficiency', 'global', close(GE, mean_offdiag(inv), rtol=1e-10), dict(det, got=GE, expected=mean_offdiag(inv)))
        REC.check(PROP, 'rout_efficiency', 'pairwise', close(np.asarray(ER)[off], inv[off], rtol=1e-12), dict(det, got=ER))
    # ---- charpath on the oracle's D
    if n >= 2:
        ok, res = call(REC, PROP, 'charpath', bct.charpath, D)
        if ok:
            lam, eff = res[0], res[1]
            REC.check(PROP, 'charpath', 'lambda', close(lam, mean_offdiag(D), rtol=1e-12), dict(D=D, got=lam))
            REC.check(PROP, 'charpath', 'efficiency', close(eff, mean_offdiag(inv), rtol=1e-12), dict(D=D, got=eff))
        if fin[off].any():
            ok, res = call(REC, PROP, 'charpath', bct.charpath, D, include_infinite=False)
            if ok:
                m = off & fin
                REC.check(PROP, 'charpath', 'lambda_finite_only', close(res[0], D[m].mean(), rtol=1e-12), dict(D=D, got=res[0]))
        # the two flags in every spelling a caller produces (a comparison of numpy values yields np.bool_, a
        # configuration file 0 / 1): the meaning must be that of the Python bool
        for idg, iinf in ((np.False_, np.True_), (0, 1), (np.False_, np.False_), (0, 0), (False, np.bool_(False))):
            if not iinf and not fin[off].any():
                continue
            ok, res = call(REC, PROP, 'charpath', bct.charpath, D, include_diagonal=idg, include_infinite=iinf)
            if ok:
                m = off & (fin if not iinf else np.ones_like(fin))
                REC.check(PROP, 'charpath', 'flag_spelling', close(res[0], D[m].mean(), rtol=1e-12) and
                          close(res[1], (1.0 / D[m]).mean(), rtol=1e-12),
                          dict(D=D, got=[res[0], res[1]], include_diagonal=repr(idg), include_infinite=repr(iinf)))
    if scheme == 'bin':
        # ---- binary routines
        ok, Db = call(REC, PROP, 'distance_bin', bct.distance_bin, A)
        if ok:
            REC.check(PROP, 'distance_bin', 'distances', same_dist(Db), dict(det, got=Db, expected=D))
            REC.check(PROP, 'distance_bin', 'zero_diagonal', bool(np.all(np.diag(np.asarray(Db)) == 0)), dict(det, got=Db))
        for fname in ('breadthdist', 'reachdist'):
            ok, res = call(REC, PROP, fname, getattr(bct, fname), A)
            if ok:
                Rr, Dr = res
                Rr = np.asarray(Rr)
                Dr = np.asarray(Dr, dtype=float)
                REC.check(PROP, fname, 'distances', same_dist(Dr), dict(det, got=Dr, expected=D))
                REC.check(PROP, fname, 'reach_flag', Rr.shape == Dr.shape and bool(np.array_equal(Rr != 0, np.isfinite(Dr)))
                          and bool(np.array_equal((Rr != 0)[off], fin[off])), dict(det, R=Rr, D=Dr))
        if n <= 40:
            for fname in ('distance_bin', 'breadthdist', 'reachdist', 'efficiency_bin'):
                dtype_variants_agree(REC, PROP, fname, getattr(bct, fname), A)
        if n >= 2:
            ok, E = call(REC, PROP, 'efficiency_bin', bct.efficiency_bin, A)
            if ok:
                REC.check(PROP, 'efficiency_bin', 'global', close(E, mean_offdiag(inv), rtol=1e-12), dict(det, got=E))
    else:
        # distance_bin must ignore the weights
        ok, Db = call(REC, PROP, 'distance_bin', bct.distance_bin, L)
        if ok:
            Dbin = O.floyd(A)
            fb = np.isfinite(Dbin)
            Xb = np.asarray(Db, dtype=float)
            REC.check(PROP, 'distance_bin', 'distances', Xb.shape == Dbin.shape and bool(np.array_equal(np.isfinite(Xb), fb))
                      and bool(np.array_equal(Xb[fb], Dbin[fb])), dict(det, got=Db))
    ties = H is not None and any(len(H[i][j]) > 1 for i in range(n) for j in range(n) if i != j)
    nontriv = (not fin[off].all()) or ties or not np.array_equal(L, L.T)
    if not fin[off].all():
        REC.tag(PROP, 'class:unreachable_pair')
    if ties:
        REC.tag(PROP, 'class:tie_with_different_hops')
    if big:
        REC.tag(PROP, 'class:more_than_100_nodes')
    if not np.array_equal(L, L.T):
        REC.tag(PROP, 'class:asymmetric')
    if nontriv:
        REC.note_nontrivial(PROP, L)


def check_weights(REC, bct, A, W, directed):
    """W: weights in (0,1] on the support A; transforms and efficiency_wei."""
    n = len(W)
    off = ~np.eye(n, dtype=bool)
    for tr in ('inv', 'log'):
        with np.errstate(all='ignore'):
            E = np.where(A != 0, (1.0 / W) if tr == 'inv' else -np.log(W), np.inf)
        D = O.floyd(E, absent_is_zero=False)
        H = O.hop_sets(E, D, rtol=1e-9, absent_is_zero=False)
        fin = np.isfinite(D)
        REC.tag(PROP, 'exec')
        ok, res = call(REC, PROP, 'distance_wei_floyd', bct.distance_wei_floyd, W, transform=tr)
        if ok:
            S, hp, Pm = res
            S = np.asarray(S, dtype=float)
            hp = np.asarray(hp)
            good = S.shape == D.shape and bool(np.array_equal(np.isfinite(S)[off], fin[off])) and \
                bool(np.allclose(S[off & fin], D[off & fin], rtol=1e-12, atol=0))
            REC.check(PROP, 'distance_wei_floyd', 'distances', good, {'W': W, 'transform': tr, 'got': S, 'expected': D})
            hgood = hp.shape == D.shape and all(
                (hp[i, j] == 0) if (i == j or not fin[i, j]) else (int(hp[i, j]) in H[i][j])
                for i in range(n) for j in range(n))
            REC.check(PROP, 'distance_wei_floyd', 'hop_counts', hgood, {'W': W, 'transform': tr, 'got': hp})
        with np.errstate(all='ignore'):
            inv = np.where(off, 1.0 / (D + 0.0), 0.0)      # (+ 0.0: a zero distance is +0, its inverse +inf)
        if n >= 2 and (D[off & fin] == 0).any():
            REC.tag(PROP, 'zero_length_path:efficiency_is_plus_infinity')
        if n >= 2:
            ok, res = call(REC, PROP, 'rout_efficiency', bct.rout_efficiency, W, transform=tr)
            if ok:
                GE, ER, _ = res
                REC.check(PROP, 'rout_efficiency', 'global', close(GE, mean_offdiag(inv), rtol=1e-10), {'W': W, 'transform': tr, 'got': GE})
                REC.check(PROP, 'rout_efficiency', 'pairwise', close(np.asarray(ER)[off], inv[off], rtol=1e-10), {'W': W, 'transform': tr, 'got': ER})
            if tr == 'inv' and not directed:
                ok, Ew = call(REC, PROP, 'efficiency_wei', bct.efficiency_wei, W)
                if ok:
                    REC.check(PROP, 'efficiency_wei', 'global', close(Ew, mean_offdiag(inv), rtol=1e-10), {'W': W, 'got': Ew})
                ok, Ew = call(REC, PROP, 'efficiency_wei', bct.efficiency_wei, W, 'global')
                if ok:
                    REC.check(PROP, 'efficiency_wei', 'global', np.ndim(Ew) == 0 and close(Ew, mean_offdiag(inv), rtol=1e-10), {'W': W, 'got': Ew, 'local': 'global'})
            if tr == 'inv' and directed:
                ok, Ew = call(REC, PROP, 'efficiency_wei', bct.efficiency_wei, W)
                if ok:
                    REC.check(PROP, 'efficiency_wei', 'global', close(Ew, mean_offdiag(inv), rtol=1e-10), {'W': W, 'got': Ew},
                              classes=('directed',))


def run(case, bct, REC):
    if case.get('kind') == 'deep_chain':
        from ..monitor import raw
        n = case['n']
        A = np.zeros((n, n))
        A[np.arange(n - 1), np.arange(1, n)] = 1
        REC.tag(PROP, 'exec')
        try:
            R, D = raw(bct.reachdist)(A)      # unmonitored on purpose: one call takes minutes, the history layer would repeat it
        except CaseTimeout:
            raise
        except Exception as e:  # noqa
            REC.check(PROP, 'reachdist', 'returns', False, {'n': n, 'exception': repr(e)[:200]}, ('deep_chain',))
            return
        idx = np.arange(n)
        E = np.where(idx[None, :] > idx[:, None], (idx[None, :] - idx[:, None]).astype(float), np.inf)
        np.fill_diagonal(E, 0)
        Dn = np.asarray(D, dtype=float).copy()
        np.fill_diagonal(Dn, 0)
        REC.check(PROP, 'reachdist', 'distances', bool(np.array_equal(Dn, E)), {'n': n, 'first_row_tail': Dn[0, -5:]}, ('deep_chain',))
        REC.check(PROP, 'reachdist', 'reach_flag', bool(np.array_equal(np.asarray(R)[~np.eye(n, dtype=bool)] != 0, np.isfinite(E)[~np.eye(n, dtype=bool)])), {'n': n}, ('deep_chain',))
        REC.note_nontrivial(PROP, 'deep_chain', n)
        return
    if case.get('kind') == 'concurrent':
        from .common import concurrent_callers_agree
        REC.tag(PROP, 'exec')
        return concurrent_callers_agree(REC, PROP, bct, [('distance_bin', lambda rs, n: (_cc_und(rs, n, True),)), ('distance_wei', lambda rs, n: (_cc_und(rs, n),)), ('distance_wei_floyd', lambda rs, n: (_cc_und(rs, n),)), ('efficiency_wei', lambda rs, n: (_cc_und(rs, n),))], case['n'], case['ws'], rounds=2)
    if case.get('kind') == 'degenerate':
        from .common import degenerate_sizes
        REC.tag(PROP, 'exec')
        return degenerate_sizes(REC, PROP, bct, [('distance_bin', ()), ('distance_wei', ()), ('distance_wei_floyd', ()), ('breadthdist', ()), ('reachdist', ())])
    A = G.build(case['g'])
    directed = case['directed']
    for sc in case['schemes']:
        L = G.weigh(A, sc, case['ws'], symmetric=not directed)
        check_matrix(REC, bct, A, L, sc, directed, big=case.get('big', False) or len(A) > 60)
        if sc in ('dyad', 'real') or (sc == 'bin' and len(A) <= 6):
            check_weights(REC, bct, A, L, directed)
    if 4 <= len(A) <= 9 and case['ws'] % 9 == 0:   # size-threshold probe: the same network among 300 nodes
        Li = G.weigh(A, 'int', case['ws'], symmetric=not directed)
        padding_invariant(REC, PROP, 'distance_bin', bct.distance_bin, A, 300, case['ws'], ('pair',), np.inf)
        padding_invariant(REC, PROP, 'distance_wei', lambda X: bct.distance_wei(X)[0], Li, 300, case['ws'], ('pair',), np.inf)
        padding_invariant(REC, PROP, 'breadthdist', bct.breadthdist, A, 300, case['ws'], ('skip', 'pair'), np.inf)
        padding_invariant(REC, PROP, 'distance_wei_floyd', bct.distance_wei_floyd, Li, 300, case['ws'], ('pair', 'skip', 'skip'), np.inf)
    if len(A) <= 6:
        REC.sample(PROP, {'A': A, 'schemes': case['schemes']}, cap=4)
