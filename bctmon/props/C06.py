"""C06 -- signed null models keep each node's positive/negative degree and all weights."""
import numpy as np

from .. import graphs as G
from .. import rng as rngmod
from .common import call, close, layout_variants_agree

PROP = 'C06'
FUNCS = ['randmio_und_signed', 'randmio_dir_signed', 'null_model_und_sign', 'null_model_dir_sign']
ANCHORS = FUNCS
RULE = ('one execution = one depth-0 call of a signed randomiser on a signed weighted network (dense and sparse '
        'three-valued sign patterns, normal and tied small-integer weights, symmetric for _und, directed for _dir) with '
        'bin_swaps/itr in {0,1,5}, wei_freq in {0,0.1,0.5,1}, Spy and Hostile schedules, plus chains of '
        'single-iteration randmio_*_signed calls; non-trivial = both signs present and output differs from input')
EXHAUSTIVE = {}
ASSUMPTIONS = ['inputs contain at least one positive and one negative connection, n >= 5; self-connections only for the null_model routines (which drop them), degrees and weights are counted off the diagonal',
               'strength preservation is not demanded (only reported through the returned correlations)']
CLAUSES = ['pos_in_degree', 'pos_out_degree', 'neg_in_degree', 'neg_out_degree', 'pos_weight_multiset',
           'neg_weight_multiset', 'empty_diagonal']
REQUIRED = ['%s/%s' % (f, c) for f in FUNCS for c in CLAUSES] + \
           ['randmio_und_signed/symmetric', 'null_model_und_sign/symmetric',
            'null_model_und_sign/strength_correlations', 'null_model_dir_sign/strength_correlations']
CASE_TIMEOUT = {'quick': 30.0, 'thorough': 180.0}
POL = sorted(p for p in rngmod.POLICIES if p != 'stall')


def signed_matrix(n, dens, scheme, directed, seed):
    rs = np.random.RandomState(seed)
    if scheme == 'normal':
        W = rs.randn(n, n)
    elif scheme == 'int':
        W = rs.randint(1, 4, size=(n, n)) * rs.choice([-1.0, 1.0], size=(n, n))
    elif scheme == 'logu':  # magnitudes over 12 orders: nonzero weights far below any 'rounding noise' threshold
        W = 10.0 ** rs.uniform(-12, 0, size=(n, n)) * rs.choice([-1.0, 1.0], size=(n, n))
    elif scheme == 'denorm':  # magnitudes whose pairwise products underflow to zero
        W = 10.0 ** rs.uniform(-300, -160, size=(n, n)) * rs.choice([-1.0, 1.0], size=(n, n))
    elif scheme == 'nearmax':  # magnitudes within a factor 4 of the largest float: w + w is already inf
        W = 10.0 ** rs.uniform(307.6, 308.2, size=(n, n)) * rs.choice([-1.0, 1.0], size=(n, n))
    elif scheme == 'fewneg':  # mostly positive
        W = np.abs(rs.randn(n, n)) * rs.choice([-1.0, 1.0], size=(n, n), p=[.15, .85])
    else:
        raise ValueError(scheme)
    W = W * (rs.rand(n, n) < dens)
    if not directed:
        W = np.triu(W, 1)
        W = W + W.T
    np.fill_diagonal(W, 0)
    return W


def cases(tier, seed):
    thorough = tier == 'thorough'
    nmax = 24 if thorough else 10
    rs = np.random.RandomState(seed + 606)
    out = []
    nmat = 120 if thorough else 40
    for t in range(nmat):
        n = int(rs.randint(5, nmax + 1))
        dens = float(rs.choice([1.0, 1.0, .8, .5, .3, .15]))
        scheme = ['normal', 'int', 'fewneg', 'logu', 'denorm'][t % 5]
        ms = int(rs.randint(1 << 30))
        for f in FUNCS:
            out.append({'f': f, 'n': n, 'dens': dens, 'scheme': scheme, 'ms': ms, 'kind': 'single',
                        'rs': seed * 100 + t, 'pol': POL[t % len(POL)], 'allpol': thorough and t % 6 == 0})
    for t in range(20 if thorough else 6):      # weights next to the largest representable float
        n = int(rs.randint(5, nmax + 1))
        for f in FUNCS:
            out.append({'f': f, 'n': n, 'dens': float(rs.choice([1.0, .6])), 'scheme': 'nearmax', 'ms': int(rs.randint(1 << 30)),
                        'kind': 'single', 'rs': seed * 100 + t, 'pol': POL[t % len(POL)], 'allpol': False})
    for t in range(40 if thorough else 12):     # networks with self-connections
        n = int(rs.randint(5, nmax + 1))
        for f in ('null_model_und_sign', 'null_model_dir_sign'):
            out.append({'f': f, 'n': n, 'dens': float(rs.choice([1.0, .6, .3])), 'scheme': ['normal', 'int'][t % 2], 'ms': int(rs.randint(1 << 30)),
                        'kind': 'single', 'rs': seed * 100 + t, 'pol': POL[t % len(POL)], 'allpol': False, 'selfconn': ['cancel', 'random'][t % 2]})
    L = 300 if thorough else 40
    for t in range(12 if thorough else 6):
        n = int(rs.randint(5, 9))
        for f in ('randmio_und_signed', 'randmio_dir_signed'):
            for rd in ({'kind': 'spy', 'seed': seed + t}, {'kind': 'hostile', 'policy': POL[t % len(POL)], 'seed': seed}):
                out.append({'f': f, 'n': n, 'dens': [1.0, .6, .3][t % 3], 'scheme': ['normal', 'int', 'logu'][t % 3],
                            'ms': int(rs.randint(1 << 30)), 'kind': 'chain', 'len': L, 'rng': rd})
    return out


def post(REC, f, W, X, und, classes=()):
    det = {'function': f, 'W': W, 'X': X}
    if X.shape != W.shape:
        REC.check(PROP, f, 'shape', False, det, classes)
        return
    for ax, nm in ((0, 'in'), (1, 'out')):
        REC.check(PROP, f, 'pos_%s_degree' % nm, bool(np.array_equal((X > 0).sum(ax), (W > 0).sum(ax))), det, classes)
        REC.check(PROP, f, 'neg_%s_degree' % nm, bool(np.array_equal((X < 0).sum(ax), (W < 0).sum(ax))), det, classes)
    REC.check(PROP, f, 'pos_weight_multiset', bool(np.array_equal(np.sort(X[X > 0]), np.sort(W[W > 0]))), det, classes)
    REC.check(PROP, f, 'neg_weight_multiset', bool(np.array_equal(np.sort(X[X < 0]), np.sort(W[W < 0]))), det, classes)
    REC.check(PROP, f, 'empty_diagonal', bool(np.all(np.diag(X) == 0)), det, classes)
    if und:
        REC.check(PROP, f, 'symmetric', bool(np.array_equal(X, X.T)), det, classes)


def corr_oracle(W, X):
    def cc(a, b):
        with np.errstate(all='ignore'):
            return np.corrcoef(a, b)[0, 1]
    return (cc((W * (W > 0)).sum(0), (X * (X > 0)).sum(0)), cc((W * (W > 0)).sum(1), (X * (X > 0)).sum(1)),
            cc((-W * (W < 0)).sum(0), (-X * (X < 0)).sum(0)), cc((-W * (W < 0)).sum(1), (-X * (X < 0)).sum(1)))


def one(REC, bct, f, W, cfg, rng):
    und = f.endswith('und_signed') or f == 'null_model_und_sign'
    fn = getattr(bct, f)
    REC.tag(PROP, 'exec')
    Win = W.copy()
    np.fill_diagonal(Win, 0)     # self-connections (the null models accept them and drop them) are not connections
    if f.startswith('null_model'):
        ok, res = call(REC, PROP, f, fn, W, cfg['swaps'], cfg['wf'], seed=rng)
        if not ok:
            return None
        X, R = res
        X = np.asarray(X)
        post(REC, f, Win, X, und)
        if X.shape == Win.shape and cfg.get('scheme') != 'nearmax':     # (strength sums of such weights are inf on both sides)
            exp = corr_oracle(Win, X)
            okc = len(R) == 4 and all(close(np.array(a), np.array(b), rtol=1e-9, atol=1e-12) for a, b in zip(R, exp))
            REC.check(PROP, f, 'strength_correlations', okc, {'W': Win, 'X': X, 'returned': list(R), 'expected': list(exp)})
    else:
        ok, res = call(REC, PROP, f, fn, W, cfg['itr'], seed=rng)
        if not ok:
            return None
        X, eff = res
        X = np.asarray(X)
        post(REC, f, Win, X, und)
        if cfg['itr'] == 0 or eff == 0:
            REC.check(PROP, f, 'zero_budget_identity', bool(np.array_equal(X, Win)), {'W': Win, 'X': X, 'eff': eff})
    if X.shape == Win.shape and not np.array_equal(X, Win):
        sh = rng.schedule_hash() if hasattr(rng, 'schedule_hash') else ''
        REC.note_nontrivial(PROP, f, Win, repr(sorted(cfg.items())), sh)
        REC.tag(PROP, 'changed:' + f)
    if hasattr(rng, 'schedule_hash'):
        REC.schedules.add(rng.schedule_hash())
    return X


def run(case, bct, REC):
    f = case['f']
    directed = '_dir' in f
    W = signed_matrix(case['n'], case['dens'], case['scheme'], directed, case['ms'])
    if not ((W > 0).any() and (W < 0).any()):
        REC.tag(PROP, 'out_of_domain_skipped')
        return
    n = len(W)
    if case.get('selfconn') and f.startswith('null_model'):
        rs = np.random.RandomState(case['ms'] + 1)
        if case['selfconn'] == 'cancel':       # present, and cancelling exactly in the trace
            d = np.zeros(n)
            d[:4] = [2.5, -2.5, 0.75, -0.75]
            W[np.arange(n), np.arange(n)] = rs.permutation(d)
        else:
            W[np.arange(n), np.arange(n)] = rs.randint(-3, 4, size=n).astype(float)
    if case['kind'] == 'chain':
        rng = rngmod.make_rng(case['rng'])
        itr1 = (1 + 1e-9) / (n * (n - 1) if directed else int(n * (n - 1) / 2))
        cur = W
        acc = 0
        for t in range(case['len']):
            X = one(REC, bct, f, cur, {'itr': itr1, 'link': t}, rng)
            if X is None or X.shape != W.shape:
                break
            acc += int(not np.array_equal(X, cur))
            cur = X
        post(REC, f, W, cur, not directed, classes=('chain_cumulative',))
        REC.tag(PROP, 'chain_links', case['len'])
        REC.tag(PROP, 'chain_accepted_swaps', acc)
        REC.sample(PROP, {'kind': 'chain', 'f': f, 'W': W, 'links': case['len'], 'accepted': acc, 'rng': case['rng']})
        return
    pols = POL if case.get('allpol') else [case['pol']]
    descrs = [{'kind': 'spy', 'seed': case['rs']}] + [{'kind': 'hostile', 'policy': p, 'seed': case['rs']} for p in pols]
    for d in descrs:
        if f.startswith('null_model'):
            for swaps in (0, 1, 5):
                for wf in (0, .1, .5, 1):
                    one(REC, bct, f, W, {'swaps': swaps, 'wf': wf, 'scheme': case['scheme']}, rngmod.make_rng(d))
        else:
            for itr in (0, 1, 5):
                one(REC, bct, f, W, {'itr': itr}, rngmod.make_rng(d))
    if n <= 9 and not f.startswith('null_model'):   # (the null models rank float strength products: a strided sum may flip a tie)
        a = (1,)
        layout_variants_agree(REC, PROP, f, getattr(bct, f), W, args=a, make_kwargs=lambda: {'seed': rngmod.make_rng({'kind': 'spy', 'seed': 3})})
    REC.sample(PROP, {'kind': 'single', 'f': f, 'W': W if n <= 7 else [case['n'], case['dens'], case['scheme'], case['ms']],
                      'rngs': descrs})
