"""C09 -- clustering coefficients and transitivity equal their triangle definitions."""
import numpy as np

from .. import graphs as G
from .. import oracles as O
from .common import call, close, dtype_variants_agree, layout_variants_agree, padding_invariant

PROP = 'C09'
ANCHORS = ['clustering_coef_bu', 'clustering_coef_bd', 'clustering_coef_wu', 'clustering_coef_wd',
           'clustering_coef_wu_sign', 'transitivity_bu', 'transitivity_bd', 'transitivity_wu', 'transitivity_wd']
RULE = ('one execution = all clustering / transitivity routines applicable to one matrix, compared with direct O(n^3) '
        'enumeration of node triples; inputs: every labelled undirected graph on <=5/6 nodes and directed graph on '
        '<=3/4 nodes, structured graphs with and without triangles (trees, bipartite, cycles, wheels, cliques with '
        'pendant nodes, isolated nodes, reciprocal-only links), random weighted graphs with weights in (0,1], signed '
        'weights for wu_sign (all three coefficient types); non-trivial = the graph has at least one triangle and at '
        'least one node without a triangle')
EXHAUSTIVE = {'quick': 'all labelled undirected graphs on <=5 nodes and all directed graphs on <=3 nodes',
              'thorough': 'all labelled undirected graphs on <=6 nodes and all directed graphs on <=4 nodes'}
ASSUMPTIONS = ['float64 input with empty diagonal, weights in (0,1] (signed in [-1,1] for wu_sign)',
               'transitivity of a graph without connected triples (0/0) is not judged',
               'nodes with fewer than two neighbours or no triangle must get exactly 0.0 (not NaN)']
REQUIRED = ['clustering_coef_bu/values', 'clustering_coef_bd/values', 'clustering_coef_wu/values', 'clustering_coef_wd/values',
            'clustering_coef_wu_sign/values_default', 'clustering_coef_wu_sign/values_zhang',
            'clustering_coef_wu_sign/values_costantini', 'transitivity_bu/value', 'transitivity_bd/value',
            'transitivity_wu/value', 'transitivity_wd/value', 'clustering_coef_bd/exact_zero', 'clustering_coef_wd/exact_zero',
            'clustering_coef_bu/exact_zero', 'clustering_coef_wu/exact_zero']
CASE_TIMEOUT = {'quick': 30.0, 'thorough': 180.0}



def _cc_und(rs, n, binary=False, p=.15):
    A = np.triu((rs.rand(n, n) < p).astype(float), 1)
    A[np.arange(n - 1), np.arange(1, n)] = 1      # a spanning path keeps it connected
    W = A if binary else A * (rs.rand(n, n) * .9 + .1)
    return W + W.T


def cases(tier, seed):
    thorough = tier == 'thorough'
    out = []
    un = 6 if thorough else 5
    dn = 4 if thorough else 3
    for n in range(2, un + 1):
        for bits in G.all_masks(n, False):
            out.append({'g': ['mask', n, bits, False], 'directed': False, 'ws': bits % 1000, 'schemes': ['bin', 'real']})
    for n in range(2, dn + 1):
        for bits in G.all_masks(n, True):
            out.append({'g': ['mask', n, bits, True], 'directed': True, 'ws': bits % 1000, 'schemes': ['bin', 'real']})
    nmax = 30 if thorough else 12
    rs = np.random.RandomState(seed + 909)
    recs = [(g, False) for g in G.structured_und(min(nmax, 16), seeds=(seed,))] + \
           [(g, True) for g in G.structured_dir(min(nmax, 14), seeds=(seed,))]
    for t in range(150 if thorough else 40):
        n = int(rs.randint(4, nmax + 1))
        d = bool(rs.rand() < .5)
        recs.append((['er', n, float(rs.choice([.08, .15, .25, .4, .7])), d, int(rs.randint(1 << 30))], d))
    # pendant nodes / reciprocal-only links attached to dense cores
    for t in range(30 if thorough else 10):
        n = int(rs.randint(4, 9))
        recs.append((['iso', ['hub', ['er', n, .5, False, int(rs.randint(1 << 30))], 1], 1], False))
        recs.append((['named', 'lollipop', int(rs.randint(3, 6)), int(rs.randint(1, 4))], False))
    for i, (g, d) in enumerate(recs):
        out.append({'g': g, 'directed': d, 'ws': seed * 100 + i, 'schemes': ['bin', 'real', 'dyad', 'logu', 'const']})
    # dense graphs of 60-130 nodes: per-node triangle sums of several thousand (an intermediate of reduced precision
    # -- float16 from an 8-bit input, say -- is exact below 2048 only)
    # (and sizes one above a multiple of 64 / 128: a routine that works through its nodes in blocks has its last block there)
    for n, p, d in ((64, .9, False), (72, .85, True), (65, .3, False), (129, .15, True), (257, .06, False)) + (((130, .95, False), (100, .6, True), (513, .03, True)) if thorough else ()):
        out.append({'g': ['er', n, p, d, seed + n], 'directed': d, 'ws': seed + n, 'schemes': ['bin'], 'bigdense': True})
    out.append({'kind': 'degenerate', 'g': ['named', 'path', 2], 'directed': False, 'ws': 0, 'schemes': []})
    out.append({'kind': 'concurrent', 'g': ['named', 'path', 2], 'directed': False, 'ws': seed, 'schemes': [], 'n': 220 if tier == 'thorough' else 120})
    return out


def exact_zero_ok(C, mask):
    C = np.asarray(C, dtype=float)
    return bool(np.all(C[mask] == 0.0))


def run(case, bct, REC):
    if case.get('kind') == 'concurrent':
        from .common import concurrent_callers_agree
        REC.tag(PROP, 'exec')
        return concurrent_callers_agree(REC, PROP, bct, [('clustering_coef_wu', lambda rs, n: (_cc_und(rs, n),)), ('clustering_coef_wd', lambda rs, n: (_cc_und(rs, n),)), ('transitivity_wd', lambda rs, n: (_cc_und(rs, n),)), ('transitivity_wu', lambda rs, n: (_cc_und(rs, n),)), ('clustering_coef_bu', lambda rs, n: (_cc_und(rs, n, True),)), ('transitivity_bd', lambda rs, n: (_cc_und(rs, n, True),))], case['n'], case['ws'])
    if case.get('kind') == 'degenerate':
        from .common import degenerate_sizes
        REC.tag(PROP, 'exec')
        return degenerate_sizes(REC, PROP, bct, [('clustering_coef_bu', ()), ('clustering_coef_bd', ()), ('clustering_coef_wu', ()), ('clustering_coef_wd', ())])
    A = G.build(case['g'])
    directed = case['directed']
    n = len(A)
    for sc in case['schemes']:
        W = G.weigh(A, sc, case['ws'], symmetric=not directed)
        if sc == 'const' and W.max() > 1:
            W = W / 6.0   # keep weights in (0,1]
        REC.tag(PROP, 'exec')
        det = {'W': W}
        # ---- directed formulas (valid for any matrix)
        Cd, Td = O.clustering_wd(W)
        zero_d = (Cd == 0)
        ok, C = call(REC, PROP, 'clustering_coef_wd', bct.clustering_coef_wd, W)
        if ok:
            REC.check(PROP, 'clustering_coef_wd', 'values', close(C, Cd, rtol=1e-9, atol=1e-12), dict(det, got=C, expected=Cd))
            REC.check(PROP, 'clustering_coef_wd', 'exact_zero', exact_zero_ok(C, zero_d), dict(det, got=C, expected=Cd))
            REC.check(PROP, 'clustering_coef_wd', 'unit_interval', bool(np.all((np.asarray(C) >= 0) & (np.asarray(C) <= 1 + 1e-12))), dict(det, got=C))
        ok, T = call(REC, PROP, 'transitivity_wd', bct.transitivity_wd, W)
        if ok and np.isfinite(Td):
            REC.check(PROP, 'transitivity_wd', 'value', close(T, Td, rtol=1e-9, atol=1e-12), dict(det, got=T, expected=Td))
        if 3 <= n <= 9 and sc in ('bin', 'real'):
            for fname in ('clustering_coef_wd', 'transitivity_wd', 'clustering_coef_bd', 'transitivity_bd') + \
                    (('clustering_coef_wu', 'transitivity_wu', 'clustering_coef_bu', 'transitivity_bu', 'clustering_coef_wu_sign') if not directed else ()):
                layout_variants_agree(REC, PROP, fname, getattr(bct, fname), W)
        if sc == 'bin' and (n <= 30 or case.get('bigdense')):
            for fname in ('clustering_coef_bd', 'transitivity_bd', 'clustering_coef_wd', 'transitivity_wd') + \
                    (('clustering_coef_bu', 'transitivity_bu', 'clustering_coef_wu', 'transitivity_wu') if not directed else ()):
                dtype_variants_agree(REC, PROP, fname, getattr(bct, fname), W, exact=fname.endswith(('bu', 'bd')))
        if sc == 'bin':
            Cb, Tb = O.clustering_bd(W)
            ok, C = call(REC, PROP, 'clustering_coef_bd', bct.clustering_coef_bd, W)
            if ok:
                REC.check(PROP, 'clustering_coef_bd', 'values', close(C, Cb, rtol=1e-9, atol=1e-12), dict(det, got=C, expected=Cb))
                REC.check(PROP, 'clustering_coef_bd', 'exact_zero', exact_zero_ok(C, Cb == 0), dict(det, got=C, expected=Cb))
            ok, T = call(REC, PROP, 'transitivity_bd', bct.transitivity_bd, W)
            if ok and np.isfinite(Tb):
                REC.check(PROP, 'transitivity_bd', 'value', close(T, Tb, rtol=1e-9, atol=1e-12), dict(det, got=T, expected=Tb))
        if not directed:
            Cu, Tu = O.clustering_wu(W)
            ok, C = call(REC, PROP, 'clustering_coef_wu', bct.clustering_coef_wu, W)
            if ok:
                REC.check(PROP, 'clustering_coef_wu', 'values', close(C, Cu, rtol=1e-9, atol=1e-12), dict(det, got=C, expected=Cu))
                REC.check(PROP, 'clustering_coef_wu', 'exact_zero', exact_zero_ok(C, Cu == 0), dict(det, got=C, expected=Cu))
                REC.check(PROP, 'clustering_coef_wu', 'unit_interval', bool(np.all((np.asarray(C) >= 0) & (np.asarray(C) <= 1 + 1e-12))), dict(det, got=C))
            ok, T = call(REC, PROP, 'transitivity_wu', bct.transitivity_wu, W)
            if ok and np.isfinite(Tu):
                REC.check(PROP, 'transitivity_wu', 'value', close(T, Tu, rtol=1e-9, atol=1e-12), dict(det, got=T, expected=Tu))
            if sc == 'bin':
                Cb, Tb = O.clustering_bu(W)
                ok, C = call(REC, PROP, 'clustering_coef_bu', bct.clustering_coef_bu, W)
                if ok:
                    REC.check(PROP, 'clustering_coef_bu', 'values', close(C, Cb, rtol=1e-9, atol=1e-12), dict(det, got=C, expected=Cb))
                    REC.check(PROP, 'clustering_coef_bu', 'exact_zero', exact_zero_ok(C, Cb == 0), dict(det, got=C, expected=Cb))
                ok, T = call(REC, PROP, 'transitivity_bu', bct.transitivity_bu, W)
                if ok and np.isfinite(Tb):
                    REC.check(PROP, 'transitivity_bu', 'value', close(T, Tb, rtol=1e-9, atol=1e-12), dict(det, got=T, expected=Tb))
            # ---- signed variant
            if sc == 'logu':   # signed weights whose magnitudes span 12 orders
                S = W * np.sign(G.weigh(A, 'signed', case['ws'] + 1, symmetric=True))
            elif sc != 'bin':
                S = G.weigh(A, 'signed', case['ws'] + 1, symmetric=True)
                S = np.clip(S / 3.0, -1, 1)
            else:
                S = G.weigh(A, 'signedint', case['ws'] + 1, symmetric=True) / 3.0
            if case['ws'] % 6 == 1:
                S = -np.abs(S)        # no positive weight at all
            elif case['ws'] % 6 == 2:
                S = np.abs(S)         # no negative weight at all
            Sp = S * (S > 0)
            Sn = -S * (S < 0)
            ok, res = call(REC, PROP, 'clustering_coef_wu_sign', bct.clustering_coef_wu_sign, S.copy())
            if ok:
                ep, en = O.clustering_wu(Sp)[0], O.clustering_wu(Sn)[0]
                good = close(res[0], ep, rtol=1e-9, atol=1e-12) and close(res[1], en, rtol=1e-9, atol=1e-12)
                REC.check(PROP, 'clustering_coef_wu_sign', 'values_default', good, {'W': S, 'got': list(res), 'expected': [ep, en]})
            if n <= 14:
                ok, res = call(REC, PROP, 'clustering_coef_wu_sign', bct.clustering_coef_wu_sign, S.copy(), coef_type='zhang')
                if ok:
                    ep, en = O.clustering_zhang(Sp), O.clustering_zhang(Sn)
                    good = close(res[0], ep, rtol=1e-9, atol=1e-12) and close(res[1], en, rtol=1e-9, atol=1e-12)
                    REC.check(PROP, 'clustering_coef_wu_sign', 'values_zhang', good, {'W': S, 'got': list(res), 'expected': [ep, en]})
                for alt in ('Zhang',):   # the capitalised spellings are accepted too
                    ok, res = call(REC, PROP, 'clustering_coef_wu_sign', bct.clustering_coef_wu_sign, S.copy(), coef_type=alt)
                    if ok:
                        ep, en = O.clustering_zhang(Sp), O.clustering_zhang(Sn)
                        REC.check(PROP, 'clustering_coef_wu_sign', 'values_zhang', close(res[0], ep, rtol=1e-9, atol=1e-12) and close(res[1], en, rtol=1e-9, atol=1e-12),
                                  {'W': S, 'coef_type': alt, 'got': list(res)})
                ok, res = call(REC, PROP, 'clustering_coef_wu_sign', bct.clustering_coef_wu_sign, S.copy(), coef_type='costantini')
                if ok:
                    ec = O.clustering_costantini(S)
                    REC.check(PROP, 'clustering_coef_wu_sign', 'values_costantini', close(res, ec, rtol=1e-9, atol=1e-12),
                              {'W': S, 'got': res, 'expected': ec})
        has_tri = bool((Cd != 0).any())
        if has_tri and bool((Cd == 0).any()):
            REC.note_nontrivial(PROP, W)
            REC.tag(PROP, 'class:triangle_and_triangle_free_node')
    if 4 <= n <= 9 and case['ws'] % 9 == 0:
        Wr = G.weigh(A, 'real', case['ws'], symmetric=not directed)
        for fn, X in (('clustering_coef_bd', A), ('clustering_coef_wd', Wr)) + ((('clustering_coef_bu', A), ('clustering_coef_wu', Wr)) if not directed else ()):
            padding_invariant(REC, PROP, fn, getattr(bct, fn), X, 300, case['ws'], ('node',), 0.0)
        for fn, X in (('transitivity_bd', A), ('transitivity_wd', Wr)) + ((('transitivity_bu', A), ('transitivity_wu', Wr)) if not directed else ()):
            padding_invariant(REC, PROP, fn, getattr(bct, fn), X, 300, case['ws'], ('scalar',), 0.0)
    if n <= 5:
        REC.sample(PROP, {'A': A, 'schemes': case['schemes']}, cap=4)
