"""Shared execution + post-conditions for community detection (C02 consistency, C07 monotonicity)."""
import numpy as np

from .. import oracles as O
from .. import rng as rngmod
from .common import call

LOUVAIN = ['community_louvain', 'modularity_louvain_und', 'modularity_louvain_dir', 'modularity_louvain_und_sign']
FINETUNE = ['modularity_finetune_und', 'modularity_finetune_dir', 'modularity_finetune_und_sign']
OTHER = ['modularity_probtune_und_sign', 'modularity_und', 'modularity_dir', 'modularity_und_sign']
ALL = LOUVAIN + FINETUNE + OTHER
QTYPES = ['sta', 'pos', 'smp', 'gja', 'neg']
OBJ = ['modularity', 'potts', 'negative_sym', 'negative_asym']


def qdef(fname, W, ci, cfg):
    g = cfg.get('gamma', 1.0)
    if fname == 'community_louvain':
        B = cfg.get('B', 'modularity')
        if B == 'modularity':
            return O.q_newman(W, ci, g)
        if B == 'potts':
            return O.q_potts(W, ci, g)
        if B == 'negative_sym':
            return O.q_signed(W, ci, g, 'gja')
        if B == 'negative_asym':
            return O.q_signed(W, ci, g, 'sta')
    if fname.endswith('_sign'):
        return O.q_signed(W, ci, g, cfg.get('qtype', 'sta'))
    return O.q_newman(W, ci, g)


def qtol(q):
    return 1e-9 * max(1.0, abs(q))


def execute(REC, bct, fname, W, cfg, rng, start=None):
    """One call. Returns (ci, q_def_of_result) or None. cfg keys: gamma, qtype, B, hierarchy, p."""
    f = getattr(bct, fname)
    n = len(W)
    REC.tag('C02', 'exec')
    REC.tag('C07', 'exec')
    g = cfg.get('gamma', 1.0)
    kw = {}
    if fname == 'community_louvain':
        kw = dict(gamma=g, ci=None if start is None else np.array(start), B=cfg.get('B', 'modularity'), seed=rng)
    elif fname in ('modularity_louvain_und', 'modularity_louvain_dir'):
        kw = dict(gamma=g, hierarchy=cfg.get('hierarchy', False), seed=rng)
    elif fname == 'modularity_louvain_und_sign':
        kw = dict(gamma=g, qtype=cfg.get('qtype', 'sta'), seed=rng)
    elif fname in ('modularity_finetune_und', 'modularity_finetune_dir'):
        kw = dict(ci=None if start is None else np.array(start), gamma=g, seed=rng)
    elif fname == 'modularity_finetune_und_sign':
        kw = dict(qtype=cfg.get('qtype', 'sta'), gamma=g, ci=None if start is None else np.array(start), seed=rng)
    elif fname == 'modularity_probtune_und_sign':
        kw = dict(qtype=cfg.get('qtype', 'sta'), gamma=g, ci=None if start is None else np.array(start), p=cfg.get('p', .45), seed=rng)
    elif fname in ('modularity_und', 'modularity_dir'):
        kw = dict(gamma=g, kci=None if start is None else np.array(start))
    elif fname == 'modularity_und_sign':
        kw = dict(ci=np.array(start), qtype=cfg.get('qtype', 'sta'))
    cj = {k: v for k, v in cfg.items()}
    ok, res = call(REC, 'C02', fname, f, W, **kw)
    if not ok:
        REC.check('C07', fname, 'returns', False, {'W': W, 'cfg': cj, 'start': start, 'exception': repr(res)[:200]})
        return None
    REC.check('C07', fname, 'returns', True)
    ci, q = res
    det = {'W': W, 'cfg': cj, 'start': start, 'rng': getattr(rng, 'descr', None)}
    sched = rng.schedule_hash() if hasattr(rng, 'schedule_hash') else ''
    if sched:
        REC.schedules.add(sched)
    if cfg.get('hierarchy'):
        levels = [(np.asarray(c), float(x)) for c, x in zip(ci, q)]
        if not levels:
            REC.tag('C02', 'hierarchy_empty')
            return None
        REC.tag('C02', 'hierarchy_levels', len(levels))
        if len(levels) >= 2:
            REC.tag('C02', 'hierarchy_multilevel_runs')
        qs = []
        for h, (c, x) in enumerate(levels):
            lcls = ('level_1',) if h == 0 else ('level>=2',)
            lab_ok = O.valid_labels(c, n)
            REC.check('C02', fname, 'labels_1_to_k', lab_ok, dict(det, level=h, ci=c), lcls)
            if lab_ok:
                qd = qdef(fname, W, c, cfg)
                qs.append(qd)
                REC.check('C02', fname, 'q_matches_definition', abs(x - qd) <= qtol(qd), dict(det, level=h, ci=c, q=x, q_def=qd), lcls)
        if len(qs) == len(levels):
            inc = all(b > a for a, b in zip(qs[:-1], qs[1:]))
            hcls = ('single_level',) if len(levels) == 1 else ('multi_level',)
            REC.check('C07', fname, 'hierarchy_strictly_increasing', inc, dict(det, q_def_levels=qs), hcls)
            q0 = qdef(fname, W, np.arange(n) + 1, cfg)
            REC.check('C07', fname, 'not_worse_than_start', qs[-1] >= q0 - 1e-9, dict(det, q_start=q0, q_result=qs[-1]), hcls)
            if len(levels) >= 2:
                REC.note_nontrivial('C07', fname, W, repr(sorted(cj.items())), sched, 'hier')
                REC.note_nontrivial('C02', fname, W, repr(sorted(cj.items())), sched, 'hier')
            return levels[-1][0], qs[-1]
        return None
    ci = np.asarray(ci)
    lvl = ()
    if fname == 'modularity_louvain_dir' and hasattr(rng, 'descr'):
        # input class: did the routine return its first aggregation level or a deeper one?  (same schedule again)
        try:
            hc, hq = f(W, gamma=g, hierarchy=True, seed=rngmod.make_rng(rng.descr))
            lvl = ('single_level',) if len(hq) <= 1 else ('multi_level',)
        except Exception:  # noqa
            lvl = ('level_unknown',)
        REC.tag('C02', 'louvain_dir:' + lvl[0])
    given = fname == 'modularity_und_sign' or (fname in ('modularity_und', 'modularity_dir') and start is not None)
    if given:
        same = ci.shape == (n,) and bool(np.array_equal(O.comembership(ci), O.comembership(np.asarray(start))))
        REC.check('C02', fname, 'partition_returned', same, dict(det, ci=ci))
        lab_ok = same
    else:
        lab_ok = O.valid_labels(ci, n)
        REC.check('C02', fname, 'labels_1_to_k', lab_ok, dict(det, ci=ci), lvl)
    if not lab_ok:
        return None
    qd = qdef(fname, W, ci, cfg)
    REC.check('C02', fname, 'q_matches_definition', abs(float(q) - qd) <= qtol(qd), dict(det, ci=ci, q=float(q), q_def=qd), lvl)
    k = len(np.unique(ci))
    st = np.arange(n) + 1 if start is None else np.asarray(start)
    moved = not np.array_equal(O.comembership(ci), O.comembership(st))
    if k >= 2 and (moved or given):
        REC.note_nontrivial('C02', fname, W, repr(sorted(cj.items())), sched, repr(start))
    if fname in LOUVAIN + FINETUNE:
        q0 = qdef(fname, W, st, cfg)
        REC.check('C07', fname, 'not_worse_than_start', qd >= q0 - 1e-9,
                  dict(det, ci=ci, q_start=q0, q_result=qd), lvl or (('default_start',) if start is None else ('given_start',)))
        if moved:
            REC.tag('C07', 'moved:' + fname)
            REC.note_nontrivial('C07', fname, W, repr(sorted(cj.items())), sched, repr(start))
        else:
            REC.tag('C07', 'fixed_point_stayed:' + fname)
            if start is not None:
                REC.note_nontrivial('C07', fname, W, repr(sorted(cj.items())), 'fixed', repr(start))
    return ci, qd
