"""Helpers shared by the workload modules."""
import numpy as np

from .. import graphs, rng as rngmod
from ..monitor import CaseTimeout, digest


def call(REC, prop, fname, f, *args, **kw):
    """Invoke the real function; an exception on an admissible input is a
    'returns' violation (the statements are all of the form "returns ...")."""
    classes = kw.pop('_classes', ())
    try:
        res = f(*args, **kw)
    except CaseTimeout:
        raise
    except Exception as e:  # noqa
        REC.check(prop, fname, 'returns', False,
                  {'exception': repr(e)[:300], 'args': [a for a in args], 'kwargs': {k: v for k, v in kw.items()}},
                  classes)
        return False, e
    REC.check(prop, fname, 'returns', True)
    return True, res


def rng_descrs(tier, base_seed, n_spy, policies):
    out = [{'kind': 'spy', 'seed': int(base_seed + i)} for i in range(n_spy)]
    out += [{'kind': 'hostile', 'policy': p, 'seed': int(base_seed)} for p in policies]
    return out


def close(a, b, rtol=1e-9, atol=1e-12):
    a = np.asarray(a, dtype=float)
    b = np.asarray(b, dtype=float)
    if a.shape != b.shape:
        return False
    fa = np.isfinite(a)
    fb = np.isfinite(b)
    if not np.array_equal(fa, fb):
        return False
    # same kind of non-finite
    if not np.array_equal(np.isnan(a), np.isnan(b)):
        return False
    inf_ok = np.array_equal(np.sign(a[np.isinf(a)]), np.sign(b[np.isinf(b)]))
    return bool(inf_ok and np.allclose(a[fa], b[fb], rtol=rtol, atol=atol))


def two_disjoint_edges(A, directed):
    """does the support contain two vertex-disjoint edges (a swap candidate exists)?"""
    B = (np.asarray(A) != 0)
    n = len(B)
    if directed:
        E = [(i, j) for i in range(n) for j in range(n) if i != j and B[i, j]]
    else:
        E = [(i, j) for i in range(n) for j in range(i + 1, n) if B[i, j]]
    for x in range(len(E)):
        for y in range(x + 1, len(E)):
            if len({E[x][0], E[x][1], E[y][0], E[y][1]}) == 4:
                return True
    return False


def build(case):
    """materialise the matrix of a case: case['g'] recipe, case.get('w') weight scheme"""
    A = graphs.build(case['g'])
    w = case.get('w', 'bin')
    if w != 'bin':
        A = graphs.weigh(A, w, case.get('ws', 0), symmetric=not case.get('directed', False))
    return A
