"""Helpers shared by the workload modules."""
import numpy as np

from .. import graphs, rng as rngmod
from ..monitor import CaseTimeout, digest


def call(REC, prop, fname, f, *args, **kw):
    """Invoke the real function; an exception on an admissible input is a
    'returns' violation (the statements are all of the form "returns ...")."""
    classes = kw.pop('_classes', ())
    try:
        res = f(*args, **kw)
    except CaseTimeout:
        raise
    except Exception as e:  # noqa
        REC.check(prop, fname, 'returns', False,
                  {'exception': repr(e)[:300], 'args': [a for a in args], 'kwargs': {k: v for k, v in kw.items()}},
                  classes)
        return False, e
    REC.check(prop, fname, 'returns', True)
    return True, res


def rng_descrs(tier, base_seed, n_spy, policies):
    out = [{'kind': 'spy', 'seed': int(base_seed + i)} for i in range(n_spy)]
    out += [{'kind': 'hostile', 'policy': p, 'seed': int(base_seed)} for p in policies]
    return out


def close(a, b, rtol=1e-9, atol=1e-12):
    a = np.asarray(a, dtype=float)
    b = np.asarray(b, dtype=float)
    if a.shape != b.shape:
        return False
    fa = np.isfinite(a)
    fb = np.isfinite(b)
    if not np.array_equal(fa, fb):
        return False
    # same kind of non-finite
    if not np.array_equal(np.isnan(a), np.isnan(b)):
        return False
    inf_ok = np.array_equal(np.sign(a[np.isinf(a)]), np.sign(b[np.isinf(b)]))
    return bool(inf_ok and np.allclose(a[fa], b[fb], rtol=rtol, atol=atol))


def two_disjoint_edges(A, directed):
    """does the support contain two vertex-disjoint edges (a swap candidate exists)?"""
    B = (np.asarray(A) != 0)
    n = len(B)
    if directed:
        E = [(i, j) for i in range(n) for j in range(n) if i != j and B[i, j]]
    else:
        E = [(i, j) for i in range(n) for j in range(i + 1, n) if B[i, j]]
    for x in range(len(E)):
        for y in range(x + 1, len(E)):
            if len({E[x][0], E[x][1], E[y][0], E[y][1]}) == 4:
                return True
    return False


def build(case):
    """materialise the matrix of a case: case['g'] recipe, case.get('w') weight scheme"""
    A = graphs.build(case['g'])
    w = case.get('w', 'bin')
    if w != 'bin':
        A = graphs.weigh(A, w, case.get('ws', 0), symmetric=not case.get('directed', False))
    return A


def dtype_variants_agree(REC, prop, fname, f, X, args=(), kwargs=None, exact=True, matrix=False, float32=True):
    """Binary / count matrices are naturally stored as bool or integer arrays.  This harness feeds float64 by
    convention; here the same VALUES are passed in other dtypes: whenever the routine returns for them, the result
    must be what it returns for float64 (a routine that raises for a dtype is not judged)."""
    kwargs = kwargs or {}
    try:
        ref = f(X.astype(float), *args, **kwargs)
    except CaseTimeout:
        raise
    except Exception:  # noqa
        return
    for dt in (bool, np.int64, np.uint8, np.int8, np.float32):
        if dt is bool and not np.all((X == 0) | (X == 1)):
            continue
        if dt is np.float32 and not float32:
            continue     # rounded lengths: equal-length routes may legitimately be told apart differently
        if dt is np.uint8 and (X.min() < 0 or X.max() > 255 or not np.all(X == np.round(X))):
            continue
        if dt is np.int8 and (X.min() < -128 or X.max() > 127 or not np.all(X == np.round(X))):
            continue
        if dt is np.int64 and not np.all(X == np.round(X)):
            continue
        try:
            got = f(X.astype(dt), *args, **kwargs)
        except CaseTimeout:
            raise
        except Exception:  # noqa
            REC.skip(prop, fname, 'dtype_independent')
            continue
        REC.check(prop, fname, 'dtype_independent', _same_struct(ref, got, 0.0 if (exact and dt is not np.float32) else (1e-5 if dt is np.float32 else 1e-9)),
                  {'X': X, 'dtype': str(np.dtype(dt)), 'float64_result': ref, 'result': got, 'args': list(args)}, ('dtype:' + str(np.dtype(dt)),))
    if matrix:
        matrix_variant_agrees(REC, prop, fname, f, X, args, kwargs)


def matrix_variant_agrees(REC, prop, fname, f, X, args=(), kwargs=None):
    """scipy.sparse's .todense() hands out np.matrix, for which `*` is the matrix product and a row keeps two axes:
    whenever the routine returns for it, the result must be the ndarray result (up to reshaping)"""
    kwargs = kwargs or {}
    try:
        ref = f(np.asarray(X, dtype=float).copy(), *args, **kwargs)
    except CaseTimeout:
        raise
    except Exception:  # noqa
        return
    import warnings
    try:
        with warnings.catch_warnings():
            warnings.simplefilter('ignore')
            got = f(np.asmatrix(np.asarray(X, dtype=float).copy()), *args, **kwargs)
    except CaseTimeout:
        raise
    except Exception:  # noqa
        REC.skip(prop, fname, 'matrix_type_independent')
        return
    REC.check(prop, fname, 'matrix_type_independent', _same_flat(ref, got, 1e-9),
              {'X': X, 'ndarray_result': ref, 'result': got, 'args': list(args)}, ('np.matrix',))


def _same_struct(a, b, rtol):
    if isinstance(a, (list, tuple)):
        return isinstance(b, (list, tuple)) and len(a) == len(b) and all(_same_struct(x, y, rtol) for x, y in zip(a, b))
    try:
        a = np.asarray(a, dtype=float)
        b = np.asarray(b, dtype=float)
    except Exception:  # noqa
        return True
    return close(a, b, rtol=max(rtol, 1e-12), atol=1e-12 if rtol == 0 else rtol)


def layout_variants_agree(REC, prop, fname, f, X, args=(), kwargs=None, make_kwargs=None, rtol=0.0):
    """Memory layout is not part of a network: the result for a Fortran-ordered copy, for a strided view and for a
    slice of a 3-D stack must be what the routine returns for the C-contiguous array.  ``make_kwargs`` (callable)
    builds fresh keyword arguments for every call (e.g. a fresh seeded RNG)."""
    def kw():
        return make_kwargs() if make_kwargs else (kwargs or {})
    X = np.asarray(X)
    try:
        ref = f(np.ascontiguousarray(X).copy(), *args, **kw())
    except CaseTimeout:
        raise
    except Exception:  # noqa
        return
    n0, n1 = X.shape[:2]
    big = np.zeros((2 * n0, 2 * n1) + X.shape[2:], dtype=X.dtype)
    big[::2, ::2] = X
    variants = [('F', np.asfortranarray(X)), ('strided_view', big[::2, ::2])]
    if X.ndim == 2:
        st = np.zeros(X.shape + (3,), dtype=X.dtype)
        st[:, :, 1] = X
        variants.append(('stack_slice', st[:, :, 1]))
        variants.append(('transposed_twice', np.ascontiguousarray(X.T).T))
    for lname, V in variants:
        try:
            got = f(V, *args, **kw())
        except CaseTimeout:
            raise
        except Exception as e:  # noqa
            REC.check(prop, fname, 'layout_independent', False, {'X': X, 'layout': lname, 'exception': repr(e)[:200], 'args': list(args)}, ('layout:' + lname,))
            continue
        REC.check(prop, fname, 'layout_independent', _same_struct(ref, got, rtol),
                  {'X': X, 'layout': lname, 'c_contiguous_result': ref, 'result': got, 'args': list(args)}, ('layout:' + lname,))


def pad_with_isolated(A, N, seed):
    """Embed A at random positions among N nodes; all other nodes are isolated.  Returns (padded, positions)."""
    rs = np.random.RandomState(seed)
    n = len(A)
    idx = np.sort(rs.choice(N, size=n, replace=False))
    P = np.zeros((N, N), dtype=A.dtype)
    P[np.ix_(idx, idx)] = A
    return P, idx


def padding_invariant(REC, prop, fname, f, A, N, seed, kinds, fill, args=(), rtol=1e-9):
    """Size-threshold probe with the small case as the oracle: adding isolated nodes creates no path, triangle or
    core, so on the embedded nodes the result must be the small result, and `fill` elsewhere.
    kinds: tuple of 'node' | 'pair' | 'scalar' | 'skip' per output; fill: value expected for the added nodes / pairs
    ('pair': off-diagonal cells that involve an added node)."""
    try:
        base = f(A.copy(), *args)
    except CaseTimeout:
        raise
    except Exception:  # noqa
        return
    P, idx = pad_with_isolated(A, N, seed)
    try:
        got = f(P, *args)
    except CaseTimeout:
        raise
    except Exception as e:  # noqa
        REC.check(prop, fname, 'padding_invariant', False, {'A': A, 'N': N, 'exception': repr(e)[:200]}, ('padded_to_%d' % N,))
        return
    if len(kinds) == 1:
        base, got = (base,), (got,)
    ok = True
    for k, b, g in zip(kinds, base, got):
        b = np.asarray(b, dtype=float)
        g = np.asarray(g, dtype=float)
        if k == 'skip':
            continue
        if k == 'scalar':
            ok = ok and close(b, g, rtol=rtol, atol=1e-12)
        elif k == 'node':
            rest = np.ones(N, dtype=bool)
            rest[idx] = False
            ok = ok and g.shape == (N,) and close(g[idx], b, rtol=rtol, atol=1e-12) and bool(np.all(g[rest] == fill if np.isfinite(fill) else np.isinf(g[rest])))
        elif k == 'pair':
            if g.shape != (N, N):
                ok = False
                continue
            ok = ok and close(g[np.ix_(idx, idx)], b, rtol=rtol, atol=1e-12)
            m = np.ones((N, N), dtype=bool)
            m[np.ix_(idx, idx)] = False
            m &= ~np.eye(N, dtype=bool)
            ok = ok and bool(np.all(g[m] == fill) if np.isfinite(fill) else np.all(np.isinf(g[m])))
    REC.check(prop, fname, 'padding_invariant', bool(ok), {'A': A, 'N': N, 'positions': idx, 'args': list(args)}, ('padded_to_%d' % N,))


def vector_forms_agree(REC, prop, fname, f, args, kwargs, which, rtol=1e-9):
    """The docstrings call every per-node vector "Nx1": a caller may hold it as a column (N,1) or a row (1,N) array.
    `which` names the positional index (int) or keyword (str) of a 1-D array argument.  Whenever the routine RETURNS
    for the 2-D form, the result must be the 1-D result up to reshaping (a routine that raises for it is not judged)."""
    kwargs = dict(kwargs or {})
    args = list(args)
    v = np.asarray(args[which] if isinstance(which, int) else kwargs[which])
    if v.ndim != 1 or v.size < 2:
        return
    try:
        ref = f(*[a.copy() if isinstance(a, np.ndarray) else a for a in args], **kwargs)
    except CaseTimeout:
        raise
    except Exception:  # noqa
        return
    for form, shp in (('column', (-1, 1)), ('row', (1, -1))):
        a2 = list(args)
        k2 = dict(kwargs)
        if isinstance(which, int):
            a2[which] = v.reshape(shp).copy()
        else:
            k2[which] = v.reshape(shp).copy()
        try:
            got = f(*[a.copy() if isinstance(a, np.ndarray) else a for a in a2], **k2)
        except CaseTimeout:
            raise
        except Exception:  # noqa
            REC.skip(prop, fname, 'vector_form_independent')
            continue
        REC.check(prop, fname, 'vector_form_independent', _same_flat(ref, got, rtol),
                  {'form': form, 'vector': v, 'args': [a for i, a in enumerate(args) if i != which], 'result_1d': ref, 'result': got}, ('form:' + form,))


def _same_flat(a, b, rtol):
    if isinstance(a, (list, tuple)):
        return isinstance(b, (list, tuple)) and len(a) == len(b) and all(_same_flat(x, y, rtol) for x, y in zip(a, b))
    try:
        a = np.asarray(a, dtype=float)
        b = np.asarray(b, dtype=float)
    except Exception:  # noqa
        return True
    if a.size != b.size:
        return False
    return close(a.ravel(), b.ravel(), rtol=rtol, atol=1e-12)


def degenerate_sizes(REC, prop, bct, specs):
    """The graph with no nodes and the single isolated node are graphs.  specs: list of (function name, extra
    positional arguments).  The routine must return, and every array it returns must have only axes of length n
    (scalars are free) -- no oracle needed, nothing else is possible."""
    for n in (0, 1):
        for fname, extra in specs:
            A = np.zeros((n, n))
            try:
                res = getattr(bct, fname)(A, *extra)
            except CaseTimeout:
                raise
            except Exception as e:  # noqa
                REC.check(prop, fname, 'degenerate_size', False, {'n': n, 'exception': repr(e)[:200], 'extra': list(extra)}, ('n=%d' % n,))
                continue
            outs = res if isinstance(res, tuple) else (res,)
            ok = True
            for o in outs:
                if isinstance(o, (list, tuple)):
                    continue
                sh = np.shape(o)
                ok = ok and all(d == n for d in sh)
            REC.check(prop, fname, 'degenerate_size', bool(ok), {'n': n, 'result': [np.asarray(o) for o in outs if not isinstance(o, (list, tuple))], 'extra': list(extra)}, ('n=%d' % n,))


def concurrent_callers_agree(REC, prop, bct, specs, n, seed, nthreads=3, rounds=4):
    """Several threads call the same routine at once, each on its own arrays (numpy releases the GIL inside BLAS and
    in many ufunc loops, so the calls really overlap).  A routine that is a function of its arguments gives every
    thread what it gives a lone caller; module-level scratch space shared between concurrent calls does not.
    specs: list of (function name, builder(rs, n) -> args tuple).  The raw functions are used: the monitors' own
    state is single-threaded by design."""
    import threading
    from .. import monitor as _mon
    from ..monitor import raw
    from ..history import History
    for fname, builder in specs:
        f = raw(getattr(bct, fname))
        rs = np.random.RandomState(seed)
        inputs = [builder(rs, n) for _ in range(nthreads * 2)]
        depth0 = getattr(_mon._tls, 'depth', 0)
        _mon._tls.depth = 1
        try:
            serial = [f(*[a.copy() if isinstance(a, np.ndarray) else a for a in args]) for args in inputs]
        except CaseTimeout:
            raise
        except Exception:  # noqa
            REC.skip(prop, fname, 'concurrent_callers_agree')
            continue
        finally:
            _mon._tls.depth = depth0
        bad = []
        start = threading.Barrier(nthreads)

        def worker(t):
            try:
                _mon._enter_thread()      # calls the routine makes to other bct routines are not depth-0 calls
                start.wait(10)
                for r in range(rounds):
                    for i in range(t, len(inputs), nthreads):
                        got = f(*[a.copy() if isinstance(a, np.ndarray) else a for a in inputs[i]])
                        if not History.agree(serial[i], got):
                            bad.append({'thread': t, 'round': r, 'input': i})
            except BaseException as e:  # noqa
                bad.append({'thread': t, 'exception': repr(e)[:200]})
        ths = [threading.Thread(target=worker, args=(t,), daemon=True) for t in range(nthreads)]
        for th in ths:
            th.start()
        for th in ths:
            th.join(120)
        alive = any(th.is_alive() for th in ths)
        REC.tag(prop, 'concurrent_calls', nthreads * rounds * 2)
        REC.check(prop, fname, 'concurrent_callers_agree', not bad and not alive,
                  {'n': n, 'threads': nthreads, 'first_disagreements': bad[:5], 'still_running': alive}, ('threads=%d' % nthreads,))
