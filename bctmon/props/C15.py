"""C15 -- k-core and s-core outputs are the maximal subnetworks meeting the degree bound."""
import numpy as np

from .. import graphs as G
from .. import oracles as O
from .common import call, dtype_variants_agree, layout_variants_agree, padding_invariant

PROP = 'C15'
ANCHORS = ['kcore_bu', 'kcore_bd', 'score_wu', 'kcoreness_centrality_bu', 'kcoreness_centrality_bd']
RULE = ('one execution = one core routine on one graph with one level k (s); the returned matrix must be the input with '
        'exactly the rows/columns outside S* zeroed, S* = maximal node set with (in+out) degree / strength >= k inside '
        'the set, computed by enumeration of all 2^n subsets (n<=10) and by an independent single-node peeling beyond; '
        'every k in 0..n for every graph of the exhaustive small families, random graphs, weighted undirected graphs '
        'with s on a grid that contains the exact strength values occurring in the graph (dyadic weights) and their '
        'midpoints; coreness vectors, core sizes, nestedness and the peel lists are checked; non-trivial = something '
        'was peeled and something survived')
EXHAUSTIVE = {'quick': 'all labelled undirected graphs on <=5 nodes and directed graphs on <=3 nodes x every k in 0..n',
              'thorough': 'all labelled undirected graphs on <=6 nodes and directed graphs on <=4 nodes x every k in 0..n'}
ASSUMPTIONS = ['nodes without a connection inside the core are not members (the matrix cannot represent them): for k=0 the '
               'size is the number of non-isolated nodes', 'peel lists: each listed node at most once and validly; nodes that '
               'merely become isolated are not required to be listed', 'dyadic weights so that strength sums are exact']
REQUIRED = ['kcore_bu/core_matrix', 'kcore_bu/size', 'kcore_bd/core_matrix', 'kcore_bd/size', 'score_wu/core_matrix',
            'score_wu/size', 'kcoreness_centrality_bu/coreness', 'kcoreness_centrality_bd/coreness',
            'kcoreness_centrality_bu/core_sizes', 'kcoreness_centrality_bd/core_sizes', 'kcore_bu/peel_lists',
            'kcore_bd/peel_lists', 'kcore_bu/nested', 'kcore_bd/nested']
CASE_TIMEOUT = {'quick': 30.0, 'thorough': 180.0}



def _cc_und(rs, n, binary=False, p=.15):
    A = np.triu((rs.rand(n, n) < p).astype(float), 1)
    A[np.arange(n - 1), np.arange(1, n)] = 1      # a spanning path keeps it connected
    W = A if binary else A * (rs.rand(n, n) * .9 + .1)
    return W + W.T


def cases(tier, seed):
    thorough = tier == 'thorough'
    out = []
    un = 6 if thorough else 5
    dn = 4 if thorough else 3
    for n in range(2, un + 1):
        for bits in G.all_masks(n, False):
            out.append({'g': ['mask', n, bits, False], 'directed': False, 'ws': bits % 1000})
    for n in range(2, dn + 1):
        for bits in G.all_masks(n, True):
            out.append({'g': ['mask', n, bits, True], 'directed': True, 'ws': bits % 1000})
    nmax = 30 if thorough else 14
    rs = np.random.RandomState(seed + 1515)
    recs = [(g, False) for g in G.structured_und(min(nmax, 16), seeds=(seed,))] + \
           [(g, True) for g in G.structured_dir(min(nmax, 14), seeds=(seed,))]
    for t in range(150 if thorough else 40):
        n = int(rs.randint(4, nmax + 1))
        d = bool(rs.rand() < .5)
        recs.append((['er', n, float(rs.choice([.1, .2, .3, .5, .7])), d, int(rs.randint(1 << 30))], d))
    for i, (g, d) in enumerate(recs):
        out.append({'g': g, 'directed': d, 'ws': seed * 100 + i})
    out.append({'kind': 'degenerate', 'g': ['named', 'path', 2], 'directed': False, 'ws': 0, 'schemes': []})
    out.append({'kind': 'concurrent', 'g': ['named', 'path', 2], 'directed': False, 'ws': seed, 'schemes': [], 'n': 220 if tier == 'thorough' else 120})
    # a heavy triangle with a tail of 1 100 (thorough: 2 300) unit connections: the tail is peeled one node per round,
    # so whatever a routine does once per round (a recursion, a list append) happens a thousand times
    out.append({'kind': 'long_tail', 'g': ['named', 'path', 2], 'directed': False, 'ws': 0, 'schemes': [], 'tail': 2300 if tier == 'thorough' else 1100})
    return out


def core_expected(A, S):
    X = np.zeros_like(A)
    idx = np.array(sorted(S), dtype=int)
    if len(idx):
        X[np.ix_(idx, idx)] = A[np.ix_(idx, idx)]
    return X


def members(X):
    X = np.asarray(X)
    return set(np.where((X != 0).sum(0) + (X != 0).sum(1) > 0)[0].tolist())


def check_peel(A, k, mode, core, order, level):
    """each listed node at most once, not in the core, with residual degree in (0,k) at its level; levels 1,2,..."""
    try:
        flat = [int(x) for grp in order for x in np.asarray(grp).ravel()]
        lev = [float(x) for grp in level for x in np.asarray(grp).ravel()]
    except Exception as e:  # noqa
        return 'peel lists malformed: %r' % e
    if len(flat) != len(lev):
        return 'order and level differ in length'
    if len(set(flat)) != len(flat):
        return 'node listed twice'
    cm = members(core)
    if set(flat) & cm:
        return 'listed node belongs to the returned core'
    B = (A != 0).astype(float)
    cur = B.copy()
    pos = 0
    for li, grp in enumerate(order):
        grp = [int(x) for x in np.asarray(grp).ravel()]
        if any(l != li + 1 for l in lev[pos:pos + len(grp)]):
            return 'levels not numbered 1,2,... consistently with the order'
        pos += len(grp)
        deg = cur.sum(0) + cur.sum(1) if mode == 'dir' else cur.sum(0)
        for v in grp:
            if not (0 < deg[v] < k):
                return 'node %d removed at level %d with residual degree %r not in (0,%r)' % (v, li + 1, deg[v], k)
        cur[grp, :] = 0
        cur[:, grp] = 0
    return None


def run(case, bct, REC):
    if case.get('kind') == 'long_tail':
        n = 3 + case['tail']
        W = np.zeros((n, n))
        for a, b in ((0, 1), (1, 2), (0, 2)):
            W[a, b] = W[b, a] = 5.0
        idx = np.arange(2, n - 1)
        W[idx, idx + 1] = W[idx + 1, idx] = 1.0
        A = (W != 0).astype(float)
        for fname, X, lvl in (('score_wu', W, 2.0), ('kcore_bu', A, 2), ('kcore_bd', A, 3)):
            REC.tag(PROP, 'exec')
            E = np.zeros((n, n))
            E[:3, :3] = X[:3, :3]          # by construction: the tail unravels from its far end, the triangle stays
            ok, res = call(REC, PROP, fname, getattr(bct, fname), X, lvl)
            if ok:
                REC.check(PROP, fname, 'core_matrix', bool(np.array_equal(np.asarray(res[0]), E)), {'tail': case['tail'], 'level': lvl, 'got_size': res[1]}, ('long_tail',))
                REC.check(PROP, fname, 'size', int(res[1]) == 3, {'tail': case['tail'], 'level': lvl, 'got_size': res[1]}, ('long_tail',))
                REC.note_nontrivial(PROP, fname, 'long_tail', case['tail'])
        return
    if case.get('kind') == 'concurrent':
        from .common import concurrent_callers_agree
        REC.tag(PROP, 'exec')
        return concurrent_callers_agree(REC, PROP, bct, [('kcore_bu', lambda rs, n: (_cc_und(rs, n, True), 3)), ('score_wu', lambda rs, n: (_cc_und(rs, n), 1.5)), ('kcoreness_centrality_bu', lambda rs, n: (_cc_und(rs, n, True),))], case['n'], case['ws'])
    if case.get('kind') == 'degenerate':
        from .common import degenerate_sizes
        REC.tag(PROP, 'exec')
        return degenerate_sizes(REC, PROP, bct, [('kcore_bu', (1,)), ('kcore_bd', (1,)), ('score_wu', (1.0,)), ('kcoreness_centrality_bu', ()), ('kcoreness_centrality_bd', ())])
    A = G.build(case['g'])
    directed = case['directed']
    n = len(A)
    enum = n <= 10
    mode = 'dir' if directed else 'und'
    fname = 'kcore_bd' if directed else 'kcore_bu'
    f = getattr(bct, fname)
    prev = None
    exp_core = {}
    # in- plus out-degree reaches 2(n-1) in a digraph: every level up to there (and one beyond) is exercised
    for k in range(0, (2 * n if directed else n + 1)):
        REC.tag(PROP, 'exec')
        S = O.kcore_set(A, k, mode)
        if enum and n <= 8:
            S2 = O.kcore_set_enum(A, k, mode)
            assert S == S2, 'oracle disagreement'
        # members need a connection inside the core
        E = core_expected(A, S)
        Sm = members(E)
        exp_core[k] = Sm
        ok, res = call(REC, PROP, fname, f, A, k)
        if not ok:
            continue
        X, kn = res
        det = {'A': A, 'k': k, 'got': X, 'expected_members': sorted(Sm)}
        REC.check(PROP, fname, 'core_matrix', bool(np.array_equal(np.asarray(X), E)), det)
        REC.check(PROP, fname, 'size', int(kn) == len(Sm), dict(det, got_size=kn))
        if prev is not None:
            REC.check(PROP, fname, 'nested', members(X) <= prev, dict(det, previous_members=sorted(prev)))
        prev = members(X)
        ok, res = call(REC, PROP, fname, f, A, k, peel=True)
        if ok:
            X2, kn2, order, level = res
            why = check_peel(A, k, mode, X2, order, level)
            REC.check(PROP, fname, 'peel_lists', why is None and bool(np.array_equal(np.asarray(X2), E)), dict(det, why=why, order=[np.asarray(o) for o in order]))
        nonisol = len(members(A))
        if 0 < len(Sm) < nonisol:
            REC.note_nontrivial(PROP, fname, A, k)
    # the same levels again in a scrambled order (a decomposition need not be asked for level by level: anything a
    # routine remembers from the previous level is then of no use, or wrong)
    lv = sorted(exp_core)
    order = list(np.random.RandomState(case['ws']).permutation(lv)) + lv[::-1][:3]
    for k in order[:8]:
        k = int(k)
        ok, res = call(REC, PROP, fname, f, A, k)
        if ok:
            E = core_expected(A, O.kcore_set(A, k, mode))
            REC.check(PROP, fname, 'core_matrix', bool(np.array_equal(np.asarray(res[0]), E)) and int(res[1]) == len(members(E)),
                      {'A': A, 'k': k, 'got': res[0], 'order_of_levels': [int(x) for x in order[:8]]}, ('scrambled_levels',))
    if 3 <= n <= 9:
        for k in (1, 2, 3):
            layout_variants_agree(REC, PROP, fname, f, A, args=(k,))
        if not directed:
            layout_variants_agree(REC, PROP, 'score_wu', bct.score_wu, G.weigh(A, 'dyad', case['ws'], symmetric=True), args=(0.75,))
    if n <= 30:
        for k in (1, 2, 3, 4):
            dtype_variants_agree(REC, PROP, fname, f, A, args=(k,))
        dtype_variants_agree(REC, PROP, 'kcoreness_centrality_bd' if directed else 'kcoreness_centrality_bu',
                             getattr(bct, 'kcoreness_centrality_bd' if directed else 'kcoreness_centrality_bu'), A)
    # coreness
    cname = 'kcoreness_centrality_bd' if directed else 'kcoreness_centrality_bu'
    REC.tag(PROP, 'exec')
    ok, res = call(REC, PROP, cname, getattr(bct, cname), A)
    if ok:
        cor, kn = res
        exp = np.zeros(n)
        for k in sorted(exp_core):     # "the largest k whose core contains it", whatever its size relative to n
            for v in exp_core[k]:
                exp[v] = k
        REC.check(PROP, cname, 'coreness', bool(np.array_equal(np.asarray(cor, dtype=float), exp)), {'A': A, 'got': cor, 'expected': exp})
        REC.check(PROP, cname, 'core_sizes', bool(np.array_equal(np.asarray(kn, dtype=float), np.array([len(exp_core[k]) for k in range(n)], dtype=float))),
                  {'A': A, 'got': kn, 'expected': [len(exp_core[k]) for k in range(n)]})
    # s-core on weighted undirected graphs
    if not directed:
        W = G.weigh(A, 'dyad', case['ws'], symmetric=True)
        st = W.sum(0)
        vals = sorted(set(st.tolist()))
        # strengths inside sub-cores matter too: take all distinct partial sums seen while peeling at the observed values
        grid = set([0.0, vals[-1] + 1 if vals else 1.0])
        for a, b in zip([0.0] + vals, vals):
            grid.add(b)
            grid.add((a + b) / 2.0)
        prevm = None
        for s in sorted(grid):
            REC.tag(PROP, 'exec')
            S = O.kcore_set(W, s, 'wei')
            E = core_expected(W, S)
            Sm = members(E)
            ok, res = call(REC, PROP, 'score_wu', bct.score_wu, W, s)
            if not ok:
                continue
            X, sn = res
            det = {'W': W, 's': s, 'got': X, 'expected_members': sorted(Sm)}
            REC.check(PROP, 'score_wu', 'core_matrix', bool(np.array_equal(np.asarray(X), E)), det)
            REC.check(PROP, 'score_wu', 'size', int(sn) == len(Sm), dict(det, got_size=sn))
            if prevm is not None:
                REC.check(PROP, 'score_wu', 'nested', members(X) <= prevm, det)
            prevm = members(X)
            if 0 < len(Sm) < len(members(W)):
                REC.note_nontrivial(PROP, 'score_wu', W, s)
        gl = sorted(grid)
        order = [gl[i] for i in np.random.RandomState(case['ws'] + 1).permutation(len(gl))] + gl[::-1][:3]
        for sv in order[:9]:
            ok, res = call(REC, PROP, 'score_wu', bct.score_wu, W, sv)
            if ok:
                E = core_expected(W, O.kcore_set(W, sv, 'wei'))
                REC.check(PROP, 'score_wu', 'core_matrix', bool(np.array_equal(np.asarray(res[0]), E)) and int(res[1]) == len(members(E)),
                          {'W': W, 's': sv, 'got': res[0], 'order_of_levels': order[:9]}, ('scrambled_levels',))
    # non-dyadic (one-decimal) weights: s exactly equal to a node's strength inside successive cores.
    # Strengths are summed sequentially in index order on both sides (numpy's axis-0 reduction and the oracle).
    if not directed and 3 <= n <= 9:
        rs = np.random.RandomState(case['ws'] + 77)
        Wt = np.triu(rs.randint(1, 10, size=(n, n)) / 10.0, 1)
        W = A * (Wt + Wt.T)
        cand = set()
        alive = list(range(n))
        while alive:
            st = {i: sum(W[i, j] for j in alive if j != i) for i in alive}
            pos = [v for v in st.values() if v > 0]
            if not pos:
                break
            cand.update(pos)
            mn = min(pos)
            alive = [i for i in alive if st[i] > mn]
        for sv in sorted(cand)[:40]:
            REC.tag(PROP, 'exec')
            S = O.kcore_set(W, sv, 'wei')
            E = core_expected(W, S)
            Sm = members(E)
            ok, res = call(REC, PROP, 'score_wu', bct.score_wu, W, sv)
            if not ok:
                continue
            X, sn = res
            det = {'W': W, 's': sv, 'got': X, 'expected_members': sorted(Sm)}
            REC.check(PROP, 'score_wu', 'core_matrix', bool(np.array_equal(np.asarray(X), E)), det, ('one_decimal_weights',))
            REC.check(PROP, 'score_wu', 'size', int(sn) == len(Sm), dict(det, got_size=sn), ('one_decimal_weights',))
            if 0 < len(Sm) < len(members(W)):
                REC.note_nontrivial(PROP, 'score_wu', W, sv)
    if 4 <= n <= 9 and case['ws'] % 9 == 0:
        for k in (1, 2, 3):
            padding_invariant(REC, PROP, fname, f, A, 300, case['ws'], ('pair', 'scalar'), 0.0, args=(k,))
        padding_invariant(REC, PROP, cname, lambda X: getattr(bct, cname)(X)[0], A, 120, case['ws'], ('node',), 0.0)
    if n <= 5:
        REC.sample(PROP, {'A': A, 'directed': directed}, cap=4)
