"""C08 -- betweenness counts exactly the shortest paths through each node and edge."""
import numpy as np

from .. import graphs as G
from .. import oracles as O
from .common import call, close, dtype_variants_agree, layout_variants_agree, padding_invariant

PROP = 'C08'
ANCHORS = ['betweenness_bin', 'betweenness_wei', 'edge_betweenness_bin', 'edge_betweenness_wei']
RULE = ('one execution = the four betweenness routines on one matrix, compared with brute-force counting of '
        'sigma(s,t), sigma(s,t|v), sigma(s,t|u->v) on an independent min-plus closure; inputs: every labelled '
        'undirected graph on <=5/6 nodes and directed graph on <=3/4 nodes (binary and with tied small-integer '
        'lengths), structured graphs with many geodesics (grids, hypercubes, K_ab, even cycles), random graphs with '
        'binary / tied-integer / dyadic / tie-free real lengths; non-trivial = some pair has more than one shortest '
        'path, or some ordered pair is unreachable')
EXHAUSTIVE = {'quick': 'all labelled undirected graphs on <=5 nodes and all directed graphs on <=3 nodes',
              'thorough': 'all labelled undirected graphs on <=6 nodes and all directed graphs on <=4 nodes'}
ASSUMPTIONS = ['lengths are integers / dyadic rationals so that "equal length" is exact on both sides; real-weighted '
               'classes are used only when the oracle finds no two distinct path lengths closer than 1e-9 relative',
               'float64 input with empty diagonal']
REQUIRED = ['betweenness_bin/node_values', 'betweenness_wei/node_values', 'edge_betweenness_bin/edge_values',
            'edge_betweenness_bin/node_values', 'edge_betweenness_wei/edge_values', 'edge_betweenness_wei/node_values',
            'betweenness_bin/sum_identity', 'edge_betweenness_bin/sum_identity']
CASE_TIMEOUT = {'quick': 30.0, 'thorough': 180.0}



def _cc_und(rs, n, binary=False, p=.15):
    A = np.triu((rs.rand(n, n) < p).astype(float), 1)
    A[np.arange(n - 1), np.arange(1, n)] = 1      # a spanning path keeps it connected
    W = A if binary else A * (rs.rand(n, n) * .9 + .1)
    return W + W.T


def cases(tier, seed):
    thorough = tier == 'thorough'
    out = []
    un = 6 if thorough else 5
    dn = 4 if thorough else 3
    for n in range(2, un + 1):
        for bits in G.all_masks(n, False):
            out.append({'g': ['mask', n, bits, False], 'directed': False, 'ws': bits % 1000, 'schemes': ['bin', 'int']})
    for n in range(2, dn + 1):
        for bits in G.all_masks(n, True):
            out.append({'g': ['mask', n, bits, True], 'directed': True, 'ws': bits % 1000, 'schemes': ['bin', 'int']})
    nmax = 30 if thorough else 12
    rs = np.random.RandomState(seed + 808)
    recs = [(g, False) for g in G.structured_und(min(nmax, 16), seeds=(seed,))] + \
           [(g, True) for g in G.structured_dir(min(nmax, 14), seeds=(seed,))]
    for t in range(150 if thorough else 40):
        n = int(rs.randint(4, nmax + 1))
        d = bool(rs.rand() < .5)
        recs.append((['er', n, float(rs.choice([.08, .15, .25, .4, .7])), d, int(rs.randint(1 << 30))], d))
    for i, (g, d) in enumerate(recs):
        out.append({'g': g, 'directed': d, 'ws': seed * 100 + i, 'schemes': ['bin', 'int', 'dyad', 'real', 'neartie', 'bigint', 'logu', 'const']})
    out.append({'g': ['named', 'blob_chain', 20, 34, False], 'directed': False, 'ws': 1, 'schemes': ['bin']})
    for g in G.many_paths(200):
        out.append({'g': g, 'directed': g[-1] is True, 'ws': 1, 'schemes': ['bin']})
    out.append({'kind': 'degenerate', 'g': ['named', 'path', 2], 'directed': False, 'ws': 0, 'schemes': []})
    out.append({'kind': 'concurrent', 'g': ['named', 'path', 2], 'directed': False, 'ws': seed, 'schemes': [], 'n': 110 if tier == 'thorough' else 60})
    return out


def tie_free(L):
    """no two distinct candidate path lengths within 1e-9 relative (so float rounding cannot create or hide a tie)"""
    D = O.floyd(L)
    n = len(L)
    for s in range(n):
        for v in range(n):
            if s == v or not np.isfinite(D[s, v]):
                continue
            for u in range(n):
                if L[u, v] != 0 and np.isfinite(D[s, u]):
                    c = D[s, u] + L[u, v]
                    if c != D[s, v] and abs(c - D[s, v]) <= 1e-9 * max(abs(c), D[s, v]):
                        return False
                    if c == D[s, v]:
                        pass
    return True


def run(case, bct, REC):
    if case.get('kind') == 'concurrent':
        from .common import concurrent_callers_agree
        REC.tag(PROP, 'exec')
        return concurrent_callers_agree(REC, PROP, bct, [('betweenness_bin', lambda rs, n: (_cc_und(rs, n, True),)), ('betweenness_wei', lambda rs, n: (_cc_und(rs, n),)), ('edge_betweenness_bin', lambda rs, n: (_cc_und(rs, n, True),))], case['n'], case['ws'], rounds=2)
    if case.get('kind') == 'degenerate':
        from .common import degenerate_sizes
        REC.tag(PROP, 'exec')
        return degenerate_sizes(REC, PROP, bct, [('betweenness_bin', ()), ('betweenness_wei', ()), ('edge_betweenness_bin', ()), ('edge_betweenness_wei', ())])
    A = G.build(case['g'])
    directed = case['directed']
    n = len(A)
    for sc in case['schemes']:
        L = G.weigh(A, sc, case['ws'], symmetric=not directed)
        fo = O.betweenness if n <= 12 else O.betweenness_fast
        if sc in ('real', 'logu'):
            # inexact lengths: the oracle decides "equal length" with a relative tolerance; the matrix is judged only
            # if the counts are the same for a few-ulp tolerance and for 1e-9 (no near-tie anywhere, every shortest
            # path unique) -- otherwise which paths "tie" would be a matter of rounding on both sides
            lo = fo(L, rtol=1e-13)
            hi = fo(L, rtol=1e-9)
            if not (np.array_equal(lo[0], hi[0]) and np.array_equal(lo[1], hi[1])) or (hi[3][np.isfinite(hi[2])] > 1).any():
                REC.tag(PROP, 'inexact_lengths_with_near_tie_skipped')
                continue
        REC.tag(PROP, 'exec')
        BC, EBC, D, sg = fo(L, rtol=1e-9 if sc in ('real', 'logu') else 0.0)
        off = ~np.eye(n, dtype=bool)
        fin = np.isfinite(D) & off
        det = {'L': L}
        ok, b = call(REC, PROP, 'betweenness_wei', bct.betweenness_wei, L)
        if ok:
            REC.check(PROP, 'betweenness_wei', 'node_values', close(b, BC, rtol=1e-9, atol=1e-9), dict(det, got=b, expected=BC))
        ok, res = call(REC, PROP, 'edge_betweenness_wei', bct.edge_betweenness_wei, L)
        if ok:
            e, b2 = res
            REC.check(PROP, 'edge_betweenness_wei', 'edge_values', close(e, EBC, rtol=1e-9, atol=1e-9), dict(det, got=e, expected=EBC))
            REC.check(PROP, 'edge_betweenness_wei', 'node_values', close(b2, BC, rtol=1e-9, atol=1e-9), dict(det, got=b2, expected=BC))
        if 3 <= n <= 9 and sc in ('bin', 'int'):
            for fname in ('betweenness_wei', 'edge_betweenness_wei', 'betweenness_bin', 'edge_betweenness_bin'):
                layout_variants_agree(REC, PROP, fname, getattr(bct, fname), L)
        if sc == 'bin' and n <= 30:
            for fname in ('betweenness_bin', 'edge_betweenness_bin'):
                dtype_variants_agree(REC, PROP, fname, getattr(bct, fname), L, matrix=True)
        if sc == 'bin':
            ok, b = call(REC, PROP, 'betweenness_bin', bct.betweenness_bin, L)
            if ok:
                REC.check(PROP, 'betweenness_bin', 'node_values', close(b, BC, rtol=1e-9, atol=1e-9), dict(det, got=b, expected=BC))
                REC.check(PROP, 'betweenness_bin', 'sum_identity',
                          bool(np.isclose(np.sum(b), (D[fin] - 1).sum(), rtol=1e-9, atol=1e-9)), dict(det, got=np.sum(b), expected=(D[fin] - 1).sum()))
            ok, res = call(REC, PROP, 'edge_betweenness_bin', bct.edge_betweenness_bin, L)
            if ok:
                e, b2 = res
                REC.check(PROP, 'edge_betweenness_bin', 'edge_values', close(e, EBC, rtol=1e-9, atol=1e-9), dict(det, got=e, expected=EBC))
                REC.check(PROP, 'edge_betweenness_bin', 'node_values', close(b2, BC, rtol=1e-9, atol=1e-9), dict(det, got=b2, expected=BC))
                REC.check(PROP, 'edge_betweenness_bin', 'sum_identity',
                          bool(np.isclose(np.sum(e), D[fin].sum(), rtol=1e-9, atol=1e-9)), dict(det, got=np.sum(e), expected=D[fin].sum()))
        multi = bool((sg[fin] > 1).any())
        unre = bool((~np.isfinite(D[off])).any())
        if multi:
            REC.tag(PROP, 'class:multiple_shortest_paths')
        if unre:
            REC.tag(PROP, 'class:unreachable_pair')
        if multi or unre:
            REC.note_nontrivial(PROP, L)
    if 4 <= n <= 9 and case['ws'] % 9 == 0:
        Li = G.weigh(A, 'int', case['ws'], symmetric=not directed)
        padding_invariant(REC, PROP, 'betweenness_bin', bct.betweenness_bin, A, 260, case['ws'], ('node',), 0.0)
        padding_invariant(REC, PROP, 'betweenness_wei', bct.betweenness_wei, Li, 260, case['ws'], ('node',), 0.0)
        padding_invariant(REC, PROP, 'edge_betweenness_bin', bct.edge_betweenness_bin, A, 260, case['ws'], ('pair', 'node'), 0.0)
        padding_invariant(REC, PROP, 'edge_betweenness_wei', bct.edge_betweenness_wei, Li, 260, case['ws'], ('pair', 'node'), 0.0)
    if n <= 5:
        REC.sample(PROP, {'A': A, 'schemes': case['schemes']}, cap=4)
