"""C07 -- modularity optimisers never return a partition worse than their start."""
import numpy as np

from .. import graphs as G
from .. import oracles as O
from .. import rng as rngmod
from . import modq
from .C02 import networks, build_net, GAMMAS

PROP = 'C07'
ANCHORS = modq.LOUVAIN + modq.FINETUNE
RULE = ('one execution = one call of a deterministic-gain optimiser (7 routines) from one start partition with one gamma / '
        'qtype and one injected node-visiting schedule; both the start and the result are scored by the same independent '
        'modularity oracle, so a wrong reported q cannot mask or fake a decrease; starts: singletons (default), planted, '
        'all-in-one, random, non-contiguous labels, near-optimal with one node displaced, the routine own previous output '
        '(chains of 3 re-feeds), the output of a different routine; hierarchical q lists must increase strictly; '
        'non-trivial = the routine changed the partition, or the start was a fixed point and stayed one')
EXHAUSTIVE = {}
ASSUMPTIONS = ['positive total weight; symmetric input for _und, arbitrary for _dir, signed for _und_sign',
               'modularity_probtune_und_sign is excluded (random moves may lower Q)', 'tolerance 1e-9 absolute on Q']
REQUIRED = ['%s/not_worse_than_start' % f for f in modq.LOUVAIN + modq.FINETUNE] + \
           ['modularity_louvain_und/hierarchy_strictly_increasing'] + ['%s/refeed_not_worse' % f for f in modq.FINETUNE + ['community_louvain']]
CASE_TIMEOUT = {'quick': 60.0, 'thorough': 300.0}
POL = ['ident', 'rev', 'low', 'high', 'sticky', 'coinlo']


def cases(tier, seed):
    out = []
    for i, (g, kind, w, ws) in enumerate(networks(tier, seed + 1)):
        out.append({'g': g, 'kind': kind, 'w': w, 'ws': ws, 'rs': seed * 100 + i, 'selfw': i % 7 == 3})
    return out


def displaced(ci, seed):
    rs = np.random.RandomState(seed)
    c = np.array(ci).copy()
    u = rs.randint(len(c))
    others = [x for x in np.unique(c) if x != c[u]]
    if others:
        c[u] = others[rs.randint(len(others))]
    return c


def refeed(REC, bct, fname, W, cfg, rsd, first):
    """feed the routine's own output back three times: Q_def must never go down"""
    cur, qcur = first
    for t in range(3):
        r = rngmod.make_rng({'kind': 'spy', 'seed': rsd + 31 * (t + 1)}) if t % 2 == 0 else \
            rngmod.make_rng({'kind': 'hostile', 'policy': POL[(rsd + t) % len(POL)], 'seed': rsd})
        res = modq.execute(REC, bct, fname, W, cfg, r, start=np.array(cur))
        if res is None:
            return
        nxt, qn = res
        REC.check(PROP, fname, 'refeed_not_worse', qn >= qcur - 1e-9, {'W': W, 'cfg': cfg, 'start': cur, 'q_start': qcur, 'q_result': qn, 'ci': nxt})
        cur, qcur = nxt, qn


def run(case, bct, REC):
    kind = case['kind']
    W = build_net(case['g'], kind, case['w'], case['ws'], case['selfw'])
    n = len(W)
    if kind not in ('signed', 'dirsigned') and W.sum() <= 0:
        return
    if kind == 'signed' and not (W > 0).any():
        return
    rsd = case['rs']
    rs = np.random.RandomState(rsd)
    planted = np.arange(n) % max(2, min(4, n // 3 or 2)) + 1
    base_starts = [None, planted, np.ones(n, dtype=int), rs.randint(1, 4, size=n), rs.randint(0, 3, size=n) * 11 + 5,
                   rs.permutation(n) + 1, np.arange(n)[::-1] * 3 + 2]   # n singleton modules whose labels are not in node order

    def rngs():
        return [rngmod.make_rng({'kind': 'spy', 'seed': rsd})] + \
               [rngmod.make_rng({'kind': 'hostile', 'policy': p, 'seed': rsd}) for p in (POL[rsd % len(POL)], POL[(rsd + 3) % len(POL)])]
    if kind == 'dirsigned':
        if not (W > 0).any() or not (W < 0).any():
            return
        for g in GAMMAS:
            for B in ('negative_sym', 'negative_asym'):
                cf = {'gamma': g, 'B': B}
                last = None
                for si, st in enumerate(base_starts):
                    last = modq.execute(REC, bct, 'community_louvain', W, cf, rngs()[si % 3], start=st) or last
                if last is not None:
                    refeed(REC, bct, 'community_louvain', W, cf, rsd, last)
        return
    if case['w'] == 'tinyneg':      # slightly negative input: only community_louvain documents a tolerance for it
        for g in GAMMAS:
            cf = {'gamma': g, 'B': 'modularity'}
            last = None
            for si, st in enumerate(base_starts):
                last = modq.execute(REC, bct, 'community_louvain', W, cf, rngs()[si % 3], start=st) or last
            if last is not None:
                refeed(REC, bct, 'community_louvain', W, cf, rsd, last)
        return
    if kind == 'und':
        lou, fin, cfgs = 'modularity_louvain_und', 'modularity_finetune_und', [{'gamma': g} for g in GAMMAS]
    elif kind == 'dir':
        lou, fin, cfgs = 'modularity_louvain_dir', 'modularity_finetune_dir', [{'gamma': g} for g in GAMMAS]
    else:
        lou, fin = 'modularity_louvain_und_sign', 'modularity_finetune_und_sign'
        cfgs = [{'gamma': g, 'qtype': qt} for g in GAMMAS for qt in modq.QTYPES if not (qt in ('smp', 'neg') and not (W < 0).any())]
    for cfg in cfgs:
        outs = []
        for r in rngs():
            res = modq.execute(REC, bct, lou, W, cfg, r)
            if res is not None:
                outs.append(res)
        if kind != 'signed':
            modq.execute(REC, bct, lou, W, dict(cfg, hierarchy=True), rngs()[0])
        # finetune from generic starts, from Louvain's output, from a displaced near-optimum
        starts = list(base_starts)
        if outs:
            starts.append(outs[0][0])
            starts.append(displaced(outs[0][0], rsd))
        first = None
        for si, st in enumerate(starts):
            res = modq.execute(REC, bct, fin, W, cfg, rngs()[si % 3], start=st)
            if res is not None and si == len(starts) - 1:
                first = res
        if first is not None:
            refeed(REC, bct, fin, W, cfg, rsd, first)
        # community_louvain
        if kind == 'signed':
            if not (W < 0).any() or cfg.get('qtype') not in ('sta', 'gja'):
                continue
            ccfg = {'gamma': cfg['gamma'], 'B': 'negative_asym' if cfg['qtype'] == 'sta' else 'negative_sym'}
        else:
            ccfg = {'gamma': cfg['gamma'], 'B': 'modularity'}
        cfirst = None
        for si, st in enumerate(starts):
            res = modq.execute(REC, bct, 'community_louvain', W, ccfg, rngs()[si % 3], start=st)
            if res is not None:
                cfirst = res
        if cfirst is not None:
            refeed(REC, bct, 'community_louvain', W, ccfg, rsd, cfirst)
    REC.sample(PROP, {'W': W if n <= 8 else case['g'], 'kind': kind}, cap=4)
