"""Shared execution + post-conditions for the rewiring family (C01, C11).

One *execution* = one depth-0 call of one routine with one input, one
configuration and one injected schedule.  Both properties' clauses are
evaluated on every execution; each check only counts its own property.
"""
import sys

import numpy as np

from .. import oracles as O
from .. import rng as rngmod
from ..monitor import digest, raw
from .common import call

UND = {'randmio_und', 'randmio_und_connected', 'latmio_und', 'latmio_und_connected',
       'randomize_graph_partial_und', 'randomizer_bin_und'}
DIR = {'randmio_dir', 'randmio_dir_connected', 'latmio_dir', 'latmio_dir_connected'}
LAT = {'latmio_und', 'latmio_und_connected', 'latmio_dir', 'latmio_dir_connected'}
CONN = {'randmio_und_connected', 'latmio_und_connected', 'randmio_dir_connected', 'latmio_dir_connected'}
CHAINABLE = ['randmio_und', 'randmio_dir', 'randmio_und_connected', 'randmio_dir_connected']
ALL = sorted(UND | DIR)


def ring_distance(n):
    i = np.arange(n)
    d = np.abs(i[:, None] - i[None, :])
    return np.minimum(d, n - d).astype(float)


def make_D(kind, n, seed, symmetric=True):
    if kind is None or kind == 'default':
        return None
    if kind == 'ring':
        return ring_distance(n)
    rs = np.random.RandomState(seed + 11)
    if kind == 'const':
        return np.ones((n, n)) - np.eye(n)
    if kind == 'rand':
        D = rs.rand(n, n) * 5
        if symmetric:
            D = np.triu(D, 1)
            D = D + D.T
        np.fill_diagonal(D, 0)
        return D
    if kind == 'randint':
        D = rs.randint(0, 4, size=(n, n)).astype(float)
        if symmetric:
            D = np.triu(D, 1)
            D = D + D.T
        np.fill_diagonal(D, 0)
        return D
    raise ValueError(kind)


class LocalCapture(object):
    """sys.monitoring PY_RETURN hook that copies one local variable of the
    returning frame of selected functions (the default D of the latticisers)."""
    TOOL = 4

    def __init__(self, bct, names, var):
        self.val = None
        self.active = False
        mon = getattr(sys, 'monitoring', None)
        if mon is None:
            return
        try:
            mon.use_tool_id(self.TOOL, 'bctmon-local')
        except ValueError:
            return
        self.active = True
        self.codes = set()
        for n in names:
            if hasattr(bct, n):
                code = raw(getattr(bct, n)).__code__
                self.codes.add(code)
                mon.set_local_events(self.TOOL, code, mon.events.PY_RETURN)

        def on_return(code, off, retval):
            if code in self.codes:
                try:
                    fr = sys._getframe(1)
                    v = fr.f_locals.get(var)
                    self.val = None if v is None else np.array(v, dtype=float, copy=True)
                except Exception:
                    self.val = None
        mon.register_callback(self.TOOL, mon.events.PY_RETURN, on_return)

    def take(self):
        v, self.val = self.val, None
        return v


_capture = {}


def get_capture(bct):
    if 'c' not in _capture:
        _capture['c'] = LocalCapture(bct, sorted(LAT), 'D')
    return _capture['c']


def post(REC, fname, R, X, zero_budget, eff, classes=()):
    """C01 clauses on (input R, output X in the caller's numbering)."""
    P = 'C01'
    X = np.asarray(X)
    det = lambda **k: dict(function=fname, R=R, X=X, **k)  # noqa
    if X.shape != R.shape:
        REC.check(P, fname, 'shape', False, det(), classes)
        return
    i0, o0 = O.degrees(R)
    i1, o1 = O.degrees(X)
    REC.check(P, fname, 'indegree', bool(np.array_equal(i0, i1)), det(before=i0, after=i1), classes)
    REC.check(P, fname, 'outdegree', bool(np.array_equal(o0, o1)), det(before=o0, after=o1), classes)
    REC.check(P, fname, 'weight_multiset', bool(np.array_equal(O.multiset(R), O.multiset(X.astype(float)))), det(), classes)
    REC.check(P, fname, 'no_new_selfloop', bool(np.all(np.diag(X)[np.diag(R) == 0] == 0)), det(), classes)
    if fname in UND:
        if np.array_equal(R, R.T):
            REC.check(P, fname, 'symmetric', bool(np.array_equal(X, X.T)), det(), classes)
        else:   # input symmetric only up to rounding (accepted by the routine's own tolerance): the support must be
            REC.check(P, fname, 'symmetric', bool(np.array_equal(X != 0, (X != 0).T)), det(), classes)
    else:
        REC.check(P, fname, 'out_strength', bool(np.allclose(X.sum(axis=1), R.sum(axis=1), rtol=1e-9, atol=1e-12)),
                  det(), classes)
    if zero_budget or (eff is not None and eff == 0):
        REC.check(P, fname, 'zero_budget_identity', bool(np.array_equal(X, R)), det(eff=eff), classes)


def execute(REC, bct, fname, R, cfg, rng, capture=None):
    """Run one routine once. cfg: itr / D / Dkind / mask B / maxswap / alpha.
    Returns the new matrix (caller's numbering) or None."""
    f = getattr(bct, fname)
    n = len(R)
    REC.tag('C01', 'exec')
    REC.tag('C11', 'exec')
    Rin = R.copy()
    eff = None
    D_used = None
    if fname in LAT:
        D = cfg.get('D')
        if capture is not None:
            capture.take()
        ok, res = call(REC, 'C01', fname, f, R, cfg['itr'], D=D, seed=rng)
        if not ok:
            REC.check('C11', fname, 'returns', False, {'exception': repr(res)[:200], 'R': Rin, 'cfg': _cfgj(cfg)})
            return None
        REC.check('C11', fname, 'returns', True)
        Rlatt, Rrp, ind_rp, eff = res
        X = np.asarray(Rlatt)
        ind = np.asarray(ind_rp)
        perm_ok = ind.shape == (n,) and bool(np.array_equal(np.sort(ind), np.arange(n)))
        REC.check('C01', fname, 'ind_rp_is_permutation', perm_ok, {'ind_rp': ind, 'R': Rin})
        if perm_ok:
            REC.check('C01', fname, 'rrp_is_rlatt_reindexed',
                      bool(np.array_equal(np.asarray(Rrp), X[np.ix_(ind, ind)])),
                      {'R': Rin, 'Rlatt': X, 'Rrp': Rrp, 'ind_rp': ind, 'itr': cfg['itr']})
            if D is not None:
                D_used = np.asarray(D, dtype=float)
            elif capture is not None and capture.active:
                D_used = capture.take()
                if D_used is None or D_used.shape != (n, n):
                    D_used = None
                    REC.tag('C11', 'default_D_not_captured')
                else:
                    REC.tag('C11', 'default_D_captured')
                    if np.array_equal(D_used, ring_distance(n)):
                        REC.tag('C11', 'default_D_is_ring_distance')
            if D_used is not None:
                Rrp_in = Rin[np.ix_(ind, ind)]
                c0 = float((D_used * Rrp_in).sum())
                c1 = float((D_used * np.asarray(Rrp)).sum())
                scale = max(1.0, abs(c0))
                REC.check('C11', fname, 'lattice_cost_not_increased', c1 <= c0 + 1e-9 * scale,
                          {'R': Rin, 'D': D_used, 'ind_rp': ind, 'cost_in': c0, 'cost_out': c1, 'itr': cfg['itr']})
                if c1 < c0 - 1e-9 * scale:
                    REC.tag('C11', 'cost_strictly_decreased')
        zero = cfg['itr'] == 0
    elif fname == 'randomize_graph_partial_und':
        B = cfg['B']
        ok, res = call(REC, 'C01', fname, f, R, B, cfg['maxswap'], seed=rng)
        if not ok:
            REC.check('C11', fname, 'returns', False, {'exception': repr(res)[:200], 'R': Rin, 'cfg': _cfgj(cfg)})
            return None
        REC.check('C11', fname, 'returns', True)
        X = np.asarray(res)
        zero = cfg['maxswap'] == 0
        newcells = (X != 0) & (Rin == 0)
        # the weights are the connections' identities: a masked cell that was occupied may be vacated, but a different
        # nonzero value in it is a connection that a swap created there (with distinct weights nothing is hidden)
        refilled = (X != 0) & (Rin != 0) & (X != Rin)
        REC.check('C11', fname, 'mask_respected', not bool(np.any((newcells | refilled) & (np.asarray(B) != 0))),
                  {'A': Rin, 'B': B, 'X': X, 'maxswap': cfg['maxswap']}, ('occupied_masked_cells',) if cfg.get('overlap') else ())
        if cfg.get('overlap') and np.any((np.asarray(B) != 0) & (Rin != 0) & (X == 0)):
            REC.tag('C11', 'mask_case_with_vacated_masked_cell')
        if np.any(newcells):
            REC.tag('C11', 'mask_case_with_new_cells')
    elif fname == 'randomizer_bin_und':
        try:
            res = f(R, cfg['alpha'], seed=rng)
        except bct.BCTParamError:
            REC.tag('C01', 'randomizer_bin_und:rejected')
            return None
        except Exception as e:  # noqa
            REC.check('C01', fname, 'returns', False, {'exception': repr(e)[:200], 'R': Rin, 'alpha': cfg['alpha']})
            return None
        REC.check('C01', fname, 'returns', True)
        X = np.asarray(res)
        zero = cfg['alpha'] == 0
    else:
        ok, res = call(REC, 'C01', fname, f, R, cfg['itr'], seed=rng)
        if not ok:
            REC.check('C11', fname, 'returns', False, {'exception': repr(res)[:200], 'R': Rin, 'cfg': _cfgj(cfg)})
            return None
        REC.check('C11', fname, 'returns', True)
        X, eff = res
        X = np.asarray(X)
        zero = cfg['itr'] == 0
    post(REC, fname, Rin, X, zero, eff)
    if fname in CONN and X.shape == Rin.shape:
        if fname in DIR:
            conn = O.is_strongly_connected(X)
        else:
            conn = O.is_connected(X)
        REC.check('C11', fname, 'stays_connected', conn, {'R': Rin, 'X': X, 'cfg': _cfgj(cfg)})
    changed = X.shape == Rin.shape and not np.array_equal(X, Rin)
    if changed:
        sh = rng.schedule_hash() if hasattr(rng, 'schedule_hash') else repr(rng)
        REC.note_nontrivial('C01', fname, Rin, _cfgj(cfg), sh)
        REC.tag('C01', 'changed:' + fname)
        if cfg.get('hostility', 0) > 0.3 or fname == 'randomize_graph_partial_und' or fname in LAT:
            REC.note_nontrivial('C11', fname, Rin, _cfgj(cfg), sh)
        REC.tag('C11', 'changed:' + fname)
    if hasattr(rng, 'schedule_hash'):
        REC.schedules.add(rng.schedule_hash())
    return X


def _cfgj(cfg):
    out = {}
    for k, v in cfg.items():
        if isinstance(v, np.ndarray):
            out[k] = digest(v)
        else:
            out[k] = v
    return out


def hostility(A, directed):
    """fraction of all valid degree-preserving swaps of A that would disconnect it"""
    B = (np.asarray(A) != 0)
    n = len(B)
    if directed:
        E = [(i, j) for i in range(n) for j in range(n) if i != j and B[i, j]]
    else:
        E = [(i, j) for i in range(n) for j in range(i + 1, n) if B[i, j]]
        E = E + [(j, i) for i, j in E]
    valid = 0
    bad = 0
    seen = set()
    for (a, b) in E:
        for (c, d) in E:
            if len({a, b, c, d}) < 4 or B[a, d] or B[c, b]:
                continue
            key = frozenset([(a, d), (c, b), (a, b), (c, d)]) if directed else \
                frozenset([frozenset((a, d)), frozenset((c, b)), frozenset((a, b)), frozenset((c, d))])
            if key in seen:
                continue
            seen.add(key)
            X = B.copy()
            X[a, b] = X[c, d] = False
            X[a, d] = X[c, b] = True
            if not directed:
                X[b, a] = X[d, c] = False
                X[d, a] = X[b, c] = True
            valid += 1
            ok = O.is_strongly_connected(X) if directed else O.is_connected(X)
            bad += (not ok)
            if valid >= 400:
                break
        if valid >= 400:
            break
    return (bad / valid) if valid else 0.0
