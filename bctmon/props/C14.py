"""C14 -- partition-consuming functions depend on the partition, not on label values."""
import numpy as np

from .. import graphs as G
from .. import oracles as O
from .common import close, vector_forms_agree
from ..monitor import CaseTimeout

PROP = 'C14'
RULE = ('one execution = one partition-consuming routine evaluated on (W, ci) and on (W, phi(ci)) for an injective '
        'relabelling phi in {+1000, x7, order-reversing, random injective into 0..10^6, zero-based, shuffled labels}; '
        'all 203 set partitions of 6 nodes (quick: on 3 networks) and random partitions of larger networks; '
        'partition_distance on all 52x52 ordered pairs of partitions of 5 nodes: symmetry, VIn = 0 and MIn = 1 exactly '
        'for partitions equal up to renaming and not otherwise, VIn in [0,1]; ci2ls / ls2ci round trips; non-trivial = '
        'at least two communities and phi not order-preserving')
EXHAUSTIVE = {'quick': 'all 203 set partitions of 6 nodes x 6 relabellings; all 2704 ordered pairs of partitions of 5 nodes',
              'thorough': 'all 203 set partitions of 6 nodes x 6 relabellings on 9 networks; all 2704 ordered pairs of partitions of 5 nodes'}
ASSUMPTIONS = ['integer labels', 'rtol 1e-9 with equal NaN positions; "exactly" for VIn/MIn means within 1e-12',
               'if both calls raise the same exception type the relation is unobservable (skip)']
CASE_TIMEOUT = {'quick': 60.0, 'thorough': 300.0}

CONSUMERS = {
    'participation_coef': [lambda b, W, c: b.participation_coef(W, c), lambda b, W, c: b.participation_coef(W, c, 'in'),
                           lambda b, W, c: b.participation_coef(W, c, 'out')],
    'participation_coef_sign': [lambda b, W, c: list(b.participation_coef_sign(W, c))],
    'module_degree_zscore': [lambda b, W, c, f=f: b.module_degree_zscore(W, c, f) for f in (0, 1, 2, 3)],
    'diversity_coef_sign': [lambda b, W, c: list(b.diversity_coef_sign(W, c))],
    'gateway_coef_sign': [lambda b, W, c: list(b.gateway_coef_sign(W, c)), lambda b, W, c: list(b.gateway_coef_sign(W, c, 'betweenness'))],
    'modularity_und': [lambda b, W, c: b.modularity_und(W, 1.0, c)[1], lambda b, W, c: b.modularity_und(W, 1.3, c)[1]],
    'modularity_dir': [lambda b, W, c: b.modularity_dir(W, 1.0, c)[1]],
    'modularity_und_sign': [lambda b, W, c, q=q: b.modularity_und_sign(W, c, q)[1] for q in ('sta', 'pos', 'smp', 'gja', 'neg')],
}
NEEDS = {'participation_coef': 'any', 'participation_coef_sign': 'signed', 'module_degree_zscore': 'any', 'diversity_coef_sign': 'signed',
         'gateway_coef_sign': 'signed', 'modularity_und': 'und', 'modularity_dir': 'dir', 'modularity_und_sign': 'signed'}
REQUIRED = ['%s/label_invariant' % f for f in CONSUMERS] + ['partition_distance/label_invariant', 'partition_distance/symmetric',
            'partition_distance/identical_iff_zero_vi', 'partition_distance/vin_in_unit_interval', 'agreement/label_invariant',
            'ci2ls/round_trip', 'ls2ci/round_trip']
ANCHORS = list(CONSUMERS) + ['partition_distance', 'agreement', 'ci2ls', 'ls2ci']


def relabellings(ci, seed):
    ci = np.asarray(ci)
    u = np.unique(ci)
    rs = np.random.RandomState(seed)
    rnd = dict(zip(u.tolist(), rs.choice(10 ** 6, size=len(u), replace=False).tolist()))
    shuf = dict(zip(u.tolist(), rs.permutation(u).tolist()))
    canon = np.unique(ci, return_inverse=True)[1] + 1
    return {'huge_offset': ci.astype(np.int64) + 2 ** 60, 'adjacent_uint64': canon.astype(np.uint64) + np.uint64(2 ** 63), 'canonical_float': canon.astype(float), 'canonical_int8': canon.astype(np.int8),
            'canonical_uint8': canon.astype(np.uint8), 'canonical_int32': canon.astype(np.int32),
            'plus1000': ci + 1000, 'times7': ci * 7, 'reversed': (u.max() + u.min()) - ci,
            'random_injective': np.array([rnd[c] for c in ci.tolist()]), 'zero_based': ci - ci.min(),
            'shuffled': np.array([shuf[c] for c in ci.tolist()]),
            'fractional': canon.astype(float) / 4.0, 'same_integer_part': 7.0 + canon.astype(float) / (canon.max() + 1.0),
            'all_negative': -ci.astype(np.int64) - 3, 'mixed_sign': ci.astype(np.int64) - int(np.median(u)) - 1}


def nets(n, seed, kinds):
    out = {}
    if 'und' in kinds:
        out['und'] = G.weigh(G.er_connected(n, .5, seed), 'real', seed, True)
    if 'dir' in kinds:
        out['dir'] = G.weigh(G.er(n, .6, True, seed + 1), 'real', seed + 1, False)
    if 'signed' in kinds:
        out['signed'] = G.weigh(G.er_connected(n, .7, seed + 2), 'signed', seed + 2, True)
        if seed % 5 == 2:
            out['signed'] = np.abs(out['signed'])      # no negative weight
        elif seed % 5 == 3:
            out['signed'] = -np.abs(out['signed'])     # no positive weight
        if seed % 3 == 1:   # magnitudes over 12 orders
            out['signed'] = out['signed'] * 10.0 ** np.random.RandomState(seed).uniform(-12, 0, size=out['signed'].shape)
            out['signed'] = np.triu(out['signed'], 1) + np.triu(out['signed'], 1).T
            out['und'] = G.weigh(G.er_connected(n, .5, seed), 'logu', seed, True)
    return out


def cases(tier, seed):
    thorough = tier == 'thorough'
    out = []
    parts = G.set_partitions(6)
    for ni in range(3 if thorough else 1):
        for pi, p in enumerate(parts):
            out.append({'kind': 'consumers', 'n': 6, 'ci': p, 'ns': seed * 10 + ni, 'rs': pi})
    rs = np.random.RandomState(seed + 1414)
    for t in range(150 if thorough else 40):
        n = int(rs.randint(7, 31 if thorough else 15))
        k = int(rs.randint(2, 6))
        out.append({'kind': 'consumers', 'n': n, 'ci': (rs.randint(1, k + 1, size=n)).tolist(), 'ns': int(rs.randint(1 << 30)), 'rs': t})
    p5 = G.set_partitions(5)
    for i, a in enumerate(p5):
        out.append({'kind': 'pd', 'a': a, 'all': True, 'rs': i})
    for t in range(100 if thorough else 30):
        n = int(rs.randint(6, 40))
        big = t % 3 == 0  # many communities: label values beyond any small constant
        out.append({'kind': 'pd_random', 'n': n, 'ka': int(rs.randint(1, n if big else 6)), 'kb': int(rs.randint(1, n if big else 6)), 'rs': int(rs.randint(1 << 30))})
    # partitions of more than a thousand nodes that agree at both ends and differ in the middle (anything keyed by a
    # printed / truncated / sampled form of a label vector confuses them)
    for t in range(12 if thorough else 4):
        out.append({'kind': 'pd_long', 'n': int(rs.choice([1200, 2500, 5000])), 'k': int(rs.randint(2, 9)), 'rs': int(rs.randint(1 << 30))})
    for t in range(60 if thorough else 20):
        out.append({'kind': 'agreement', 'n': int(rs.randint(3, 12)), 'm': int(rs.randint(1, 6)), 'rs': int(rs.randint(1 << 30))})
    for pi, p in enumerate(parts[:: 1 if thorough else 3]):
        out.append({'kind': 'convert', 'ci': p, 'rs': pi})
    return out


def same(a, b):
    if isinstance(a, (list, tuple)):
        return isinstance(b, (list, tuple)) and len(a) == len(b) and all(same(x, y) for x, y in zip(a, b))
    return close(np.asarray(a, dtype=float), np.asarray(b, dtype=float), rtol=1e-9, atol=1e-12)


def pair(REC, fname, clause, fa, fb, det, classes=()):
    ra = rb = ea = eb = None
    try:
        ra = fa()
    except CaseTimeout:
        raise
    except Exception as e:  # noqa
        ea = e
    try:
        rb = fb()
    except CaseTimeout:
        raise
    except Exception as e:  # noqa
        eb = e
    if ea is not None and eb is not None and type(ea) is type(eb):
        REC.skip(PROP, fname, clause)
        return None
    if ea is not None or eb is not None:
        REC.check(PROP, fname, clause, False, dict(det, a_raised=repr(ea)[:150] if ea else None, b_raised=repr(eb)[:150] if eb else None), classes)
        return None
    REC.check(PROP, fname, clause, same(ra, rb), dict(det, a=ra, b=rb), classes)
    return ra


def run(case, bct, REC):
    kind = case['kind']
    if kind == 'consumers':
        ci = np.array(case['ci'])
        n = case['n']
        W = nets(n, case['ns'], ('und', 'dir', 'signed'))
        rel = relabellings(ci, case['rs'])
        k = len(np.unique(ci))
        for fname, variants in CONSUMERS.items():
            need = NEEDS[fname]
            mats = [W[need]] if need != 'any' else [W['und'], W['dir']]
            for X in mats:
                for vi, fn in enumerate(variants):
                    for rname, c2 in rel.items():
                        REC.tag(PROP, 'exec')
                        pair(REC, fname, 'label_invariant', lambda: fn(bct, X.copy(), ci.copy()), lambda: fn(bct, X.copy(), c2.copy()),
                             {'W': X, 'ci': ci, 'relabelled': c2, 'relabelling': rname, 'variant': vi},
                             ('communities>=2',) if k >= 2 else ('single_community',))
                        if k >= 2 and rname in ('reversed', 'random_injective', 'shuffled'):
                            REC.note_nontrivial(PROP, fname, X, ci, rname, vi)
        # the affiliation vector held as a column (N,1) or a row (1,N): judged wherever the routine returns for it
        if case['rs'] % 4 == 0:
            for fname, variants in CONSUMERS.items():
                need = NEEDS[fname]
                X = W[need] if need != 'any' else W['und']
                vector_forms_agree(REC, PROP, fname, lambda X_, c_, fn=variants[0]: fn(bct, X_, c_), (X, ci), {}, 1)
        REC.sample(PROP, {'kind': kind, 'ci': ci, 'relabellings': {a: b for a, b in rel.items()}}, cap=3)
    elif kind in ('pd', 'pd_random', 'pd_long'):
        if kind == 'pd_long':
            rs = np.random.RandomState(case['rs'])
            a = rs.randint(1, case['k'] + 1, size=case['n'])
            b = a.copy()
            mid = slice(10, case['n'] - 10)
            b[mid] = rs.permutation(b[mid])            # same ends, same label counts, another partition
            c = a.copy()
            c[mid] = rs.randint(1, case['k'] + 3, size=case['n'] - 20)
            others = [b, c, a.copy(), relabellings(a, 1)['reversed'], b]
        elif kind == 'pd':
            a = np.array(case['a'])
            others = [np.array(p) for p in G.set_partitions(len(a))]
        else:
            rs = np.random.RandomState(case['rs'])
            a = rs.randint(1, case['ka'] + 1, size=case['n'])
            b = rs.randint(1, case['kb'] + 1, size=case['n'])
            others = [b, a.copy(), relabellings(a, 1)['reversed']]
        for bi, b in enumerate(others):
            REC.tag(PROP, 'exec')
            try:
                v, m = bct.partition_distance(a.copy(), b.copy())
                v2, m2 = bct.partition_distance(b.copy(), a.copy())
            except CaseTimeout:
                raise
            except Exception as e:  # noqa
                REC.check(PROP, 'partition_distance', 'returns', False, {'cx': a, 'cy': b, 'exception': repr(e)[:200]})
                continue
            det = {'cx': a, 'cy': b, 'VIn': v, 'MIn': m}
            REC.check(PROP, 'partition_distance', 'symmetric', close(np.array([v, m]), np.array([v2, m2]), rtol=1e-9, atol=1e-12), dict(det, swapped=[v2, m2]))
            ident = bool(np.array_equal(O.comembership(a), O.comembership(b)))
            if ident:
                good = abs(v) <= 1e-12 and abs(m - 1) <= 1e-12
            else:
                good = v > 1e-12 and m < 1 - 1e-12
            REC.check(PROP, 'partition_distance', 'identical_iff_zero_vi', bool(good), dict(det, identical=ident),
                      ('single_community_both',) if len(np.unique(a)) == 1 and len(np.unique(b)) == 1 else ())
            REC.check(PROP, 'partition_distance', 'vin_in_unit_interval', bool(-1e-12 <= v <= 1 + 1e-12), det)
            rel = relabellings(b, case['rs'] + bi)
            for rname in ('reversed', 'random_injective', 'zero_based', 'huge_offset', 'canonical_float', 'all_negative', 'mixed_sign'):
                try:
                    v3, m3 = bct.partition_distance(a.copy(), rel[rname].copy())
                    v4, m4 = bct.partition_distance(rel[rname].copy(), a.copy())
                    REC.check(PROP, 'partition_distance', 'label_invariant',
                              close(np.array([v, m, v, m]), np.array([v3, m3, v4, m4]), rtol=1e-9, atol=1e-12), dict(det, relabelling=rname, got=[v3, m3, v4, m4]))
                except CaseTimeout:
                    raise
                except Exception as e:  # noqa
                    REC.check(PROP, 'partition_distance', 'label_invariant', False, dict(det, relabelling=rname, exception=repr(e)[:200]))
            if len(np.unique(a)) >= 2 and len(np.unique(b)) >= 2:
                REC.note_nontrivial(PROP, 'pd', a, b)
            if bi == 0 and len(a) <= 60:
                vector_forms_agree(REC, PROP, 'partition_distance', bct.partition_distance, (a, b), {}, 0)
                vector_forms_agree(REC, PROP, 'partition_distance', bct.partition_distance, (a, b), {}, 1)
                col = lambda x, y: bct.partition_distance(x.reshape(-1, 1), y.reshape(-1, 1))   # noqa: both as columns
                try:
                    r2 = col(a.copy(), b.copy())
                    REC.check(PROP, 'partition_distance', 'vector_form_independent', close(np.array(r2, dtype=float), np.array([v, m]), rtol=1e-9, atol=1e-12),
                              dict(det, both_as_columns=r2), ('form:both_columns',))
                except CaseTimeout:
                    raise
                except Exception:  # noqa
                    REC.skip(PROP, 'partition_distance', 'vector_form_independent')
    elif kind == 'agreement':
        rs = np.random.RandomState(case['rs'])
        n, m = case['n'], case['m']
        C = rs.randint(1, 4, size=(n, m))
        REC.tag(PROP, 'exec')
        col = rs.randint(m)
        for rname, c2 in relabellings(C[:, col], case['rs']).items():
            c2 = np.asarray(c2)
            if c2.dtype == np.uint64 and C.min() >= 0:
                C2 = C.astype(np.uint64)         # (int64 + uint64 promotes to float64, which merges 2**63+1 and 2**63+2)
            else:
                C2 = C.astype(np.result_type(C.dtype, c2.dtype))     # (a float relabelling must not be truncated into an int matrix)
            C2[:, col] = c2
            pair(REC, 'agreement', 'label_invariant', lambda: bct.agreement(C.copy()), lambda: bct.agreement(C2.copy()),
                 {'ci': C, 'relabelled_column': col, 'relabelling': rname})
        for bs in (1, 2):
            if m > bs:
                pair(REC, 'agreement', 'buffer_invariant', lambda: bct.agreement(C.copy()), lambda: bct.agreement(C.copy(), buffsz=bs), {'ci': C, 'buffsz': bs})
                # the option crossed with the renaming: the chunked branch sees other label values too
                for rname in ('all_negative', 'mixed_sign', 'zero_based', 'random_injective'):
                    C2 = C.copy()
                    C2[:, col] = relabellings(C[:, col], case['rs'])[rname]
                    pair(REC, 'agreement', 'label_invariant', lambda: bct.agreement(C.copy()), lambda: bct.agreement(C2.copy(), buffsz=bs),
                         {'ci': C, 'relabelled_column': col, 'relabelling': rname, 'buffsz': bs}, ('buffsz<partitions',))
        REC.note_nontrivial(PROP, 'agreement', C)
    else:
        ci = np.array(case['ci'])
        for rname, c2 in list(relabellings(ci, case['rs']).items()) + [('identity', ci)]:
            REC.tag(PROP, 'exec')
            try:
                ls = bct.ci2ls(c2.copy())
                back = np.asarray(bct.ls2ci(ls))
                REC.check(PROP, 'ls2ci', 'round_trip', back.shape == ci.shape and bool(np.array_equal(O.comembership(back), O.comembership(ci))),
                          {'ci': c2, 'ls': ls, 'back': back})
                ls2 = bct.ci2ls(back.copy())
                REC.check(PROP, 'ci2ls', 'round_trip', set(map(frozenset, ls2)) == set(map(frozenset, ls)), {'ci': c2, 'ls': ls, 'ls2': ls2})
                for z in (True, False):
                    b2 = np.asarray(bct.ls2ci(ls, zeroindexed=z))
                    REC.check(PROP, 'ls2ci', 'zeroindexed_same_partition', bool(np.array_equal(O.comembership(b2), O.comembership(ci))) and int(b2.min()) == (0 if z else 1), {'ci': c2, 'zeroindexed': z, 'got': b2})
            except CaseTimeout:
                raise
            except Exception as e:  # noqa
                REC.check(PROP, 'ci2ls', 'round_trip', False, {'ci': c2, 'exception': repr(e)[:200]})
        if len(np.unique(ci)) >= 2:
            REC.note_nontrivial(PROP, 'convert', ci)
