"""C10 -- weighted measures reduce to binary on 0/1 input, directed to undirected on symmetric input."""
import numpy as np

from .. import graphs as G
from .common import close
from ..monitor import CaseTimeout

PROP = 'C10'
RULE = ('one execution = one documented pair of sibling routines evaluated on the same matrix (metamorphic pair monitor, '
        'both sides are the real code): weighted vs binary on 0/1 matrices, directed vs undirected on symmetric '
        'matrices, f(W) vs f(binarize(W)) for routines documented to ignore weights; inputs: every 0/1 matrix of the '
        'exhaustive small families, random 0/1 matrices of both orientations, symmetric weighted matrices with weights '
        'in (0,1]; non-trivial = at least one triangle and one triangle-free node (clustering pairs) or an unreachable '
        'pair / several shortest paths (distance pairs)')
EXHAUSTIVE = {'quick': 'all 0/1 symmetric matrices on <=5 nodes and all 0/1 matrices on <=3 nodes (empty diagonal)',
              'thorough': 'all 0/1 symmetric matrices on <=6 nodes and all 0/1 matrices on <=4 nodes'}
ASSUMPTIONS = ['each pair only gets inputs both members document', 'rtol 1e-9; NaN/inf positions must coincide',
               'if both members raise the same exception type the relation is unobservable (skip); exactly one raising '
               'is a violation', 'local efficiency compared for efficiency_wei(local=True), not "original"']
CASE_TIMEOUT = {'quick': 30.0, 'thorough': 180.0}

# name -> (class, fa, fb)   classes: 'dir01' any 0/1; 'sym01'; 'symw' symmetric weighted; 'anyw' any weighted
PAIRS = {
    'clustering_coef_wd~bd': ('dir01', lambda b, X: b.clustering_coef_wd(X), lambda b, X: b.clustering_coef_bd(X)),
    'clustering_coef_wu~bu': ('sym01', lambda b, X: b.clustering_coef_wu(X), lambda b, X: b.clustering_coef_bu(X)),
    'transitivity_wd~bd': ('dir01', lambda b, X: b.transitivity_wd(X), lambda b, X: b.transitivity_bd(X)),
    'transitivity_wu~bu': ('sym01', lambda b, X: b.transitivity_wu(X), lambda b, X: b.transitivity_bu(X)),
    'distance_wei~bin': ('dir01', lambda b, X: b.distance_wei(X)[0], lambda b, X: b.distance_bin(X)),
    'distance_wei_hops~bin': ('dir01', lambda b, X: b.distance_wei(X)[1], lambda b, X: np.where(np.isfinite(b.distance_bin(X)), b.distance_bin(X), 0)),
    'betweenness_wei~bin': ('dir01', lambda b, X: b.betweenness_wei(X), lambda b, X: b.betweenness_bin(X)),
    'edge_betweenness_wei~bin': ('dir01', lambda b, X: list(b.edge_betweenness_wei(X)), lambda b, X: list(b.edge_betweenness_bin(X))),
    'efficiency_wei~bin_global': ('sym01', lambda b, X: b.efficiency_wei(X), lambda b, X: b.efficiency_bin(X)),
    "efficiency_wei('global')~bin_global": ('sym01', lambda b, X: b.efficiency_wei(X, 'global'), lambda b, X: b.efficiency_bin(X)),
    "efficiency_wei('local')~bin_local": ('sym01', lambda b, X: b.efficiency_wei(X, 'local'), lambda b, X: b.efficiency_bin(X, True)),
    'efficiency_wei~bin_local': ('sym01', lambda b, X: b.efficiency_wei(X, local=True), lambda b, X: b.efficiency_bin(X, local=True)),
    'strengths_und~degrees_und': ('sym01', lambda b, X: b.strengths_und(X), lambda b, X: b.degrees_und(X)),
    'strengths_dir~degrees_dir': ('dir01', lambda b, X: b.strengths_dir(X), lambda b, X: b.degrees_dir(X)[2]),
    'assortativity_wei~bin': ('sym01', lambda b, X: b.assortativity_wei(X, 0), lambda b, X: b.assortativity_bin(X, 0)),
    'rich_club_wu~bu': None,  # not in the statement
    # directed -> undirected on symmetric matrices
    'clustering_coef_bd~bu': ('sym01', lambda b, X: b.clustering_coef_bd(X), lambda b, X: b.clustering_coef_bu(X)),
    'clustering_coef_wd~wu': ('symw', lambda b, X: b.clustering_coef_wd(X), lambda b, X: b.clustering_coef_wu(X)),
    'clustering_coef_wd~wu@signed': ('symsigned', lambda b, X: b.clustering_coef_wd(X), lambda b, X: b.clustering_coef_wu(X)),
    'transitivity_wd~wu@signed': ('symsigned', lambda b, X: b.transitivity_wd(X), lambda b, X: b.transitivity_wu(X)),
    'transitivity_bd~bu': ('sym01', lambda b, X: b.transitivity_bd(X), lambda b, X: b.transitivity_bu(X)),
    'transitivity_wd~wu': ('symw', lambda b, X: b.transitivity_wd(X), lambda b, X: b.transitivity_wu(X)),
    'degrees_dir_in~degrees_und': ('symw', lambda b, X: b.degrees_dir(X)[0], lambda b, X: b.degrees_und(X)),
    'degrees_dir_out~degrees_und': ('symw', lambda b, X: b.degrees_dir(X)[1], lambda b, X: b.degrees_und(X)),
    # weights ignored
    'degrees_und~binarized': ('symw', lambda b, X: b.degrees_und(X), lambda b, X: b.degrees_und(bz(X))),
    'degrees_dir~binarized': ('anyw', lambda b, X: list(b.degrees_dir(X)), lambda b, X: list(b.degrees_dir(bz(X)))),
    # jdegree indexes with degrees: it needs an integer matrix (integer weights vs 0/1 integers)
    'jdegree~binarized': ('anyw', lambda b, X: list(b.jdegree(np.ceil(X * 8).astype(int))), lambda b, X: list(b.jdegree(bz(X).astype(int)))),
    'density_und~binarized': ('symw', lambda b, X: list(b.density_und(X)), lambda b, X: list(b.density_und(bz(X)))),
    'density_dir~binarized': ('anyw', lambda b, X: list(b.density_dir(X)), lambda b, X: list(b.density_dir(bz(X)))),
    'edge_nei_overlap_bu~binarized': ('symw', lambda b, X: list(b.edge_nei_overlap_bu(X)), lambda b, X: list(b.edge_nei_overlap_bu(bz(X)))),
    'edge_nei_overlap_bd~binarized': ('anyw', lambda b, X: list(b.edge_nei_overlap_bd(X)), lambda b, X: list(b.edge_nei_overlap_bd(bz(X)))),
    'assortativity_bin~binarized': ('symw', lambda b, X: b.assortativity_bin(X, 0), lambda b, X: b.assortativity_bin(bz(X), 0)),
    'assortativity_bin_dir~binarized': ('anyw', lambda b, X: [b.assortativity_bin(X, f) for f in (1, 2, 3, 4)],
                                        lambda b, X: [b.assortativity_bin(bz(X), f) for f in (1, 2, 3, 4)]),
    'findwalks~binarized': ('anyw', lambda b, X: list(b.findwalks(X)), lambda b, X: list(b.findwalks(bz(X)))),
    'distance_bin~binarized': ('anyw', lambda b, X: b.distance_bin(X), lambda b, X: b.distance_bin(bz(X))),
    'efficiency_bin~binarized': ('symw', lambda b, X: b.efficiency_bin(X), lambda b, X: b.efficiency_bin(bz(X))),
    'efficiency_bin_local~binarized': ('symw', lambda b, X: b.efficiency_bin(X, local=True), lambda b, X: b.efficiency_bin(bz(X), local=True)),
    'reachdist~binarized': ('anyw', lambda b, X: [np.asarray(v, dtype=float) for v in b.reachdist(X)],
                            lambda b, X: [np.asarray(v, dtype=float) for v in b.reachdist(bz(X))]),
}
PAIRS = {k: v for k, v in PAIRS.items() if v is not None}
REQUIRED = ['%s/agree' % k for k in PAIRS]
ANCHORS = []


def bz(X):
    return (np.asarray(X) != 0).astype(float)


def cases(tier, seed):
    thorough = tier == 'thorough'
    out = []
    un = 6 if thorough else 5
    dn = 4 if thorough else 3
    for n in range(2, un + 1):
        for bits in G.all_masks(n, False):
            out.append({'g': ['mask', n, bits, False], 'directed': False, 'ws': bits % 1000})
    for n in range(2, dn + 1):
        for bits in G.all_masks(n, True):
            out.append({'g': ['mask', n, bits, True], 'directed': True, 'ws': bits % 1000})
    nmax = 30 if thorough else 14
    rs = np.random.RandomState(seed + 1010)
    recs = [(g, False) for g in G.structured_und(min(nmax, 16), seeds=(seed,))] + \
           [(g, True) for g in G.structured_dir(min(nmax, 14), seeds=(seed,))]
    for t in range(150 if thorough else 40):
        n = int(rs.randint(4, nmax + 1))
        d = bool(rs.rand() < .5)
        recs.append((['er', n, float(rs.choice([.08, .15, .25, .4, .7])), d, int(rs.randint(1 << 30))], d))
    for t in range(30 if thorough else 10):
        n = int(rs.randint(4, 9))
        recs.append((['iso', ['hub', ['er', n, .5, False, int(rs.randint(1 << 30))], 1], 1], False))
        recs.append((['perm', ['disjoint', ['named', 'path', int(rs.randint(3, 6))], ['named', 'complete', 1]], int(rs.randint(1 << 30))], False))
    for i, (g, d) in enumerate(recs):
        out.append({'g': g, 'directed': d, 'ws': seed * 100 + i})
    for g in G.many_paths(34 if thorough else 28):
        out.append({'g': g, 'directed': g[-1] is True, 'ws': 1})
    for g in G.blob_chains(300 if thorough else 100):
        out.append({'g': g, 'directed': False, 'ws': 1, 'only': ['distance_wei~bin', 'distance_bin~binarized', 'reachdist~binarized',
                                                                  'efficiency_wei~bin_global', 'efficiency_bin~binarized']})
    for g in G.many_paths(200 if thorough else 131):
        if len(G.build(g)) > 34:
            out.append({'g': g, 'directed': g[-1] is True, 'ws': 1, 'only': ['distance_wei~bin', 'distance_bin~binarized', 'reachdist~binarized']})
    # sizes one above a multiple of 64 / 128 (block boundaries of a vectorised routine), cheap pairs only
    cheap = ['clustering_coef_wd~bd', 'clustering_coef_wu~bu', 'transitivity_wd~bd', 'transitivity_wu~bu', 'clustering_coef_bd~bu',
             'clustering_coef_wd~wu', 'transitivity_bd~bu', 'transitivity_wd~wu', 'strengths_und~degrees_und', 'strengths_dir~degrees_dir',
             'degrees_dir_in~degrees_und', 'degrees_dir_out~degrees_und', 'degrees_und~binarized', 'degrees_dir~binarized',
             'density_und~binarized', 'density_dir~binarized']
    for n, p_ in ((65, .25), (129, .12), (257, .06)) + (((513, .03),) if thorough else ()):
        for d in (False, True):
            out.append({'g': ['er', n, p_, d, seed + n], 'directed': d, 'ws': n, 'only': cheap})
    return out


def same(a, b):
    if isinstance(a, (list, tuple)):
        return isinstance(b, (list, tuple)) and len(a) == len(b) and all(same(x, y) for x, y in zip(a, b))
    return close(np.asarray(a, dtype=float), np.asarray(b, dtype=float), rtol=1e-9, atol=1e-12)


def run(case, bct, REC):
    A = G.build(case['g'])
    directed = case['directed']
    n = len(A)
    sym = not directed
    W = G.weigh(A, 'real', case['ws'], symmetric=sym)
    Wd = G.weigh(A, 'dyad', case['ws'] + 1, symmetric=sym)
    Wl = G.weigh(A, 'logu', case['ws'] + 2, symmetric=sym)   # magnitudes down to 1e-12: still connections
    Wc = G.weigh(A, 'const', case['ws'], symmetric=sym)      # a rescaled binary network
    inputs = {'dir01': [A], 'sym01': [A] if sym else [], 'symw': [W, Wd, Wl, Wc] if sym else [], 'anyw': [W, Wd, Wl, Wc],
              'symsigned': [G.weigh(A, 'signed', case['ws'] + 3, True) / 3.0, G.weigh(A, 'signedint', case['ws'] + 4, True)] if sym else []}
    for name, (cls, fa, fb) in PAIRS.items():
        if case.get('only') and name not in case['only']:
            continue
        for X in inputs[cls]:
            REC.tag(PROP, 'exec')
            ra = rb = None
            ea = eb = None
            try:
                ra = fa(bct, X.copy())
            except CaseTimeout:
                raise
            except Exception as e:  # noqa
                ea = e
            try:
                rb = fb(bct, X.copy())
            except CaseTimeout:
                raise
            except Exception as e:  # noqa
                eb = e
            if ea is not None and eb is not None:
                if type(ea) is type(eb):
                    REC.skip(PROP, name, 'agree')
                    continue
                REC.check(PROP, name, 'agree', False, {'X': X, 'a_raised': repr(ea)[:200], 'b_raised': repr(eb)[:200]})
                continue
            if ea is not None or eb is not None:
                REC.check(PROP, name, 'agree', False, {'X': X, 'a_raised': repr(ea)[:200] if ea else None,
                                                        'b_raised': repr(eb)[:200] if eb else None})
                continue
            REC.check(PROP, name, 'agree', same(ra, rb), {'X': X, 'a': ra, 'b': rb})
    # non-triviality from the matrix itself
    B = (A != 0)
    S = (B | B.T).astype(float)
    tri = np.diag(S @ S @ S) > 0
    if tri.any() and (~tri).any():
        REC.note_nontrivial(PROP, A)
        REC.tag(PROP, 'class:triangle_and_triangle_free_node')
    if n <= 5:
        REC.sample(PROP, {'A': A}, cap=4)
