"""C05 -- seeded calls are reproducible and never touch the global random stream."""
import inspect
import json
import os
import subprocess
import sys

import numpy as np

from .. import graphs as G
from .. import rng as rngmod
from ..monitor import CaseTimeout, digest, raw

PROP = 'C05'
RULE = ('one execution = one seed-accepting public function (discovered at run time as "has a seed parameter") with one '
        'input class and one seed; clauses: same seed twice gives identical results (exact equality); integer seed equals '
        'RandomState(seed); numpy and python global generators are bit-identical before/after every seeded call (universal '
        'monitor, also active in every other workload); without a seed the result is a function of the global state alone '
        '(np.random.seed(s) / set_state, arbitrary interposed global draws, same result); thorough: same digests in fresh '
        'processes with different PYTHONHASHSEED; seeds {0, 1, 2**32-1, 12345, np.int64(7)}; non-trivial = the call '
        'consumed at least one draw (Spy log); seedable functions without a recipe are listed as uncovered')
EXHAUSTIVE = {}
ASSUMPTIONS = ['functions without a seed parameter are outside the statement', 'generate_fc raises NotImplementedError on '
               'every input (unimplemented upstream): reported as uncovered, not judged',
               'both runs raising the same exception type = unobservable (skip)']
CASE_TIMEOUT = {'quick': 120.0, 'thorough': 600.0}
SEEDS = [0, 1, 2 ** 32 - 1, 12345, 'np.int64(7)']
ANCHORS = ['get_rng', 'pick_four_unique_nodes_quickly']


def _mk(kind, n, s):
    """small valid inputs"""
    rs = np.random.RandomState(s)
    if kind == 'und_bin':
        return G.er_connected(n, .35, s)
    if kind == 'und_wei':
        return G.weigh(G.er_connected(n, .35, s), 'real', s, True)
    if kind == 'dir_bin':
        return G.er_strong(n, .3, s)
    if kind == 'dir_wei':
        return G.weigh(G.er_strong(n, .3, s), 'real', s, False)
    if kind == 'signed_und':
        W = rs.randn(n, n)
        W = np.triu(W, 1)
        return W + W.T
    if kind == 'signed_dir':
        W = rs.randn(n, n)
        np.fill_diagonal(W, 0)
        return W
    raise ValueError(kind)


def recipes(bct):
    """name -> list of (label, callable(seed) -> result)"""
    R = {}

    def add(name, label, fn):
        R.setdefault(name, []).append((label, fn))
    for n, s in ((7, 1), (10, 2)):
        ub, uw, db, dw = _mk('und_bin', n, s), _mk('und_wei', n, s), _mk('dir_bin', n, s), _mk('dir_wei', n, s)
        su, sd = _mk('signed_und', n, s), _mk('signed_dir', n, s)
        for f in ('randmio_und', 'randmio_und_connected'):
            add(f, 'und_bin', lambda seed, f=f, X=ub: getattr(bct, f)(X.copy(), 2, seed=seed))
            add(f, 'und_wei', lambda seed, f=f, X=uw: getattr(bct, f)(X.copy(), 2, seed=seed))
        for f in ('randmio_dir', 'randmio_dir_connected'):
            add(f, 'dir_bin', lambda seed, f=f, X=db: getattr(bct, f)(X.copy(), 2, seed=seed))
            add(f, 'dir_wei', lambda seed, f=f, X=dw: getattr(bct, f)(X.copy(), 2, seed=seed))
        for f in ('latmio_und', 'latmio_und_connected'):
            add(f, 'und_wei', lambda seed, f=f, X=uw: getattr(bct, f)(X.copy(), 2, seed=seed))
        for f in ('latmio_dir', 'latmio_dir_connected'):
            add(f, 'dir_wei', lambda seed, f=f, X=dw: getattr(bct, f)(X.copy(), 2, seed=seed))
        add('randmio_und_signed', 'signed', lambda seed, X=su: bct.randmio_und_signed(X.copy(), 2, seed=seed))
        add('randmio_dir_signed', 'signed', lambda seed, X=sd: bct.randmio_dir_signed(X.copy(), 2, seed=seed))
        add('null_model_und_sign', 'signed', lambda seed, X=su: bct.null_model_und_sign(X.copy(), 2, .5, seed=seed))
        add('null_model_und_sign', 'no_negative_weight', lambda seed, X=uw: bct.null_model_und_sign(X.copy(), 2, .5, seed=seed))
        add('null_model_dir_sign', 'no_negative_weight', lambda seed, X=dw: bct.null_model_dir_sign(X.copy(), 2, .5, seed=seed))
        add('null_model_dir_sign', 'signed', lambda seed, X=sd: bct.null_model_dir_sign(X.copy(), 2, .5, seed=seed))
        B = np.zeros((n, n))
        add('randomize_graph_partial_und', 'und_bin', lambda seed, X=ub, B=B: bct.randomize_graph_partial_und(X.copy(), B, 3, seed=seed))
        add('randomizer_bin_und', 'und_bin', lambda seed, X=ub: bct.randomizer_bin_und(X.copy(), .7, seed=seed))
        add('modularity_louvain_und', 'und_wei', lambda seed, X=uw: bct.modularity_louvain_und(X.copy(), seed=seed))
        add('modularity_louvain_und', 'hier', lambda seed, X=uw: bct.modularity_louvain_und(X.copy(), hierarchy=True, seed=seed))
        add('modularity_louvain_dir', 'dir_wei', lambda seed, X=dw: bct.modularity_louvain_dir(X.copy(), seed=seed))
        add('modularity_louvain_und_sign', 'signed', lambda seed, X=su: bct.modularity_louvain_und_sign(X.copy(), seed=seed))
        add('modularity_finetune_und', 'und_wei', lambda seed, X=uw: bct.modularity_finetune_und(X.copy(), seed=seed))
        add('modularity_finetune_dir', 'dir_wei', lambda seed, X=dw: bct.modularity_finetune_dir(X.copy(), seed=seed))
        add('modularity_finetune_und_sign', 'signed', lambda seed, X=su: bct.modularity_finetune_und_sign(X.copy(), seed=seed))
        add('modularity_probtune_und_sign', 'signed', lambda seed, X=su: bct.modularity_probtune_und_sign(X.copy(), seed=seed))
        add('community_louvain', 'und_wei', lambda seed, X=uw: bct.community_louvain(X.copy(), seed=seed))
        add('community_louvain', 'signed', lambda seed, X=su: bct.community_louvain(X.copy(), B='negative_asym', seed=seed))
        add('core_periphery_dir', 'dir_wei', lambda seed, X=dw: bct.core_periphery_dir(X.copy(), seed=seed))
        rs = np.random.RandomState(s)
        Dm = rs.rand(n, n)
        Dm = np.triu(Dm, 1)
        Dm = Dm + Dm.T
        add('consensus_und', 'noise', lambda seed, X=Dm: bct.consensus_und(X.copy(), .3, reps=6, seed=seed))
        blocks = (np.arange(n)[:, None] % 2 == np.arange(n)[None, :] % 2) * .9 + .05
        np.fill_diagonal(blocks, 0)
        add('consensus_und', 'blocks', lambda seed, X=blocks: bct.consensus_und(X.copy(), .3, reps=6, seed=seed))
        pts = rs.rand(n, 3)
        add('rentian_scaling', 'und_bin', lambda seed, X=ub, p=pts: bct.rentian_scaling(X.copy(), p.copy(), 15, seed=seed))
        # nodes on a line: most random cubes are empty and rejected, hundreds of partitions requested -- thousands of
        # draws from one stream inside one call
        r30 = np.random.RandomState(30)
        ub30 = np.triu((r30.rand(30, 30) < .2).astype(float), 1)
        ub30 = ub30 + ub30.T
        line = np.c_[np.arange(30, dtype=float), np.zeros(30), np.zeros(30)]
        add('rentian_scaling', 'collinear_30x600', lambda seed, X=ub30, p=line: bct.rentian_scaling(X.copy(), p.copy(), 600, seed=seed))
        Dd = np.sqrt(((pts[:, None] - pts[None]) ** 2).sum(-1))
        sa = np.zeros((n, n))
        sa[0, 1] = sa[1, 0] = 1
        for mt in ('euclidean', 'matching', 'neighbors', 'deg-avg'):
            add('generative_model', mt, lambda seed, mt=mt, sa=sa, Dd=Dd: bct.generative_model(sa.copy(), Dd.copy(), 9, np.array([-2.0, -1.0]), np.array([.3, .5]), model_type=mt, seed=seed))
        add('evaluate_generative_model', 'matching', lambda seed, sa=sa, Dd=Dd, X=ub: bct.evaluate_generative_model(sa.copy(), X.copy(), Dd.copy(), np.array([-2.0]), np.array([.3]), model_type='matching', seed=seed))
        add('generate_fc', 'und_wei', lambda seed, X=uw: bct.generate_fc(X.copy(), .5, seed=seed))
        add('pick_four_unique_nodes_quickly', 'n', lambda seed, n=n: bct.pick_four_unique_nodes_quickly(n, seed=seed))
        add('makerandCIJ_und', 'nk', lambda seed, n=n: bct.makerandCIJ_und(n, 2 * n, seed=seed))
        add('makerandCIJ_dir', 'nk', lambda seed, n=n: bct.makerandCIJ_dir(n, 3 * n, seed=seed))
        add('makeringlatticeCIJ', 'nk', lambda seed, n=n: bct.makeringlatticeCIJ(n, 3 * n + 1, seed=seed))
        add('maketoeplitzCIJ', 'nk', lambda seed, n=n: bct.maketoeplitzCIJ(n, n, 1.0, seed=seed))
        add('makeevenCIJ', 'nk', lambda seed: bct.makeevenCIJ(8, 30, 2, seed=seed))
        add('makefractalCIJ', 'nk', lambda seed: bct.makefractalCIJ(3, 2, 2, seed=seed))
        Ad = (_mk('dir_bin', n, s + 5) != 0)
        add('makerandCIJdegreesfixed', 'seq', lambda seed, Ad=Ad: bct.makerandCIJdegreesfixed(Ad.sum(0).astype(int), Ad.sum(1).astype(int), seed=seed))
        x = rs.randn(6, 6, 4)
        x = x + np.transpose(x, (1, 0, 2))
        y = rs.randn(6, 6, 5)
        y = y + np.transpose(y, (1, 0, 2))
        x[0, 1] += 3
        x[1, 0] += 3
        x[1, 2] += 3
        x[2, 1] += 3
        add('nbs_bct', 'unpaired', lambda seed, x=x, y=y: bct.nbs_bct(x.copy(), y.copy(), 1.5, k=8, seed=seed))
        add('nbs_bct', 'paired', lambda seed, x=x, y=y: bct.nbs_bct(x.copy(), y[:, :, :4].copy(), 1.0, k=8, paired=True, seed=seed))
    # degree sequences of tiny dense digraphs: the stub-matching repair often runs into dead ends (its rare paths)
    rsd = np.random.RandomState(7)
    seqs = []
    for t in range(60):
        nn = int(rsd.randint(4, 8))
        Ad = (rsd.rand(nn, nn) < rsd.choice([.5, .65, .8]))
        np.fill_diagonal(Ad, False)
        if Ad.any():
            seqs.append((Ad.sum(0).astype(int), Ad.sum(1).astype(int)))

    def one_degfixed(seed, i, o):
        try:
            return np.asarray(bct.makerandCIJdegreesfixed(i.copy(), o.copy(), seed=seed))
        except bct.BCTParamError:
            return np.array([-1.0])     # gave up: a legitimate, reproducible outcome
    for qi, (i, o) in enumerate(seqs[:40]):
        add('makerandCIJdegreesfixed', 'tiny_dense_%d' % qi, lambda seed, i=i, o=o: one_degfixed(seed, i, o))
    # a "frozen" sign pattern: all negative weights in one row (no sign-preserving swap exists)
    for nn in (6, 8):
        Wf = np.abs(np.random.RandomState(nn).randn(nn, nn)) + .1
        np.fill_diagonal(Wf, 0)
        Wf[nn - 3, [1, nn - 4, nn - 1]] *= -1
        add('null_model_dir_sign', 'frozen_pattern', lambda seed, Wf=Wf: bct.null_model_dir_sign(Wf.copy(), 5, .5, seed=seed))
        add('randmio_dir_signed', 'frozen_pattern', lambda seed, Wf=Wf: bct.randmio_dir_signed(Wf.copy(), 3, seed=seed))
        Wu = np.triu(Wf, 1)
        Wu = Wu + Wu.T
        Wu[0, 1] = Wu[1, 0] = -1.0
        add('null_model_und_sign', 'frozen_pattern', lambda seed, Wu=Wu: bct.null_model_und_sign(Wu.copy(), 5, .5, seed=seed))
    # networks with structurally equivalent nodes: candidate moves tie exactly, and that is where a tie-break draws
    def _sym_nets():
        ring = np.zeros((8, 8))
        for i in range(8):
            ring[i, (i + 1) % 8] = ring[(i + 1) % 8, i] = 1
        kb = np.zeros((7, 7))
        kb[:3, 3:] = 1
        kb[3:, :3] = 1
        tc = np.zeros((8, 8))
        tc[:4, :4] = 1
        tc[4:, 4:] = 1
        tc[3, 4] = tc[4, 3] = 1
        np.fill_diagonal(tc, 0)
        dring = np.zeros((8, 8))
        for i in range(8):
            dring[i, (i + 1) % 8] = 1
            dring[i, (i + 3) % 8] = 1
        return (('ring8', ring), ('k34', kb), ('two_cliques', tc), ('dir_circulant8', dring))
    for nm, X in _sym_nets():
        und = bool(np.array_equal(X, X.T))
        add('core_periphery_dir', 'equivalent_nodes_' + nm, lambda seed, X=X: bct.core_periphery_dir(X.copy(), seed=seed))
        add('community_louvain', 'equivalent_nodes_' + nm, lambda seed, X=X: bct.community_louvain(X.copy(), seed=seed))
        if und:
            for f in ('modularity_louvain_und', 'modularity_finetune_und', 'modularity_louvain_und_sign', 'modularity_finetune_und_sign',
                      'modularity_probtune_und_sign'):
                add(f, 'equivalent_nodes_' + nm, lambda seed, f=f, X=X: getattr(bct, f)(X.copy(), seed=seed))
            add('randmio_und', 'equivalent_nodes_' + nm, lambda seed, X=X: bct.randmio_und(X.copy(), 2, seed=seed))
            add('latmio_und', 'equivalent_nodes_' + nm, lambda seed, X=X: bct.latmio_und(X.copy(), 2, seed=seed))
        else:
            for f in ('modularity_louvain_dir', 'modularity_finetune_dir'):
                add(f, 'equivalent_nodes_' + nm, lambda seed, f=f, X=X: getattr(bct, f)(X.copy(), seed=seed))
            add('randmio_dir', 'equivalent_nodes_' + nm, lambda seed, X=X: bct.randmio_dir(X.copy(), 2, seed=seed))
            add('latmio_dir', 'equivalent_nodes_' + nm, lambda seed, X=X: bct.latmio_dir(X.copy(), 2, seed=seed))
    # agreement matrices without any block structure: the consensus loop needs several passes (one stream must
    # run through all of them)
    for nn, tau, reps, sd in ((30, .5, 5, 1), (30, .7, 5, 2), (40, .6, 4, 3), (40, .5, 6, 4), (50, .6, 3, 5), (30, .6, 8, 6)):
        rn = np.random.RandomState(1000 + sd)
        Dn = np.triu(rn.rand(nn, nn), 1)
        Dn = Dn + Dn.T
        add('consensus_und', 'noise_n%d_tau%.1f' % (nn, tau), lambda seed, X=Dn, tau=tau, reps=reps: bct.consensus_und(X.copy(), tau, reps=reps, seed=seed))
    big = 230
    rs = np.random.RandomState(99)
    Sb = rs.randn(big, big)
    np.fill_diagonal(Sb, 0)
    Su = np.triu(Sb, 1)
    Su = Su + Su.T
    add('randmio_und_signed', 'n230', lambda seed: bct.randmio_und_signed(Su.copy(), 0.002, seed=seed))
    add('randmio_dir_signed', 'n230', lambda seed: bct.randmio_dir_signed(Sb.copy(), 0.001, seed=seed))
    add('null_model_und_sign', 'n230', lambda seed: bct.null_model_und_sign(Su.copy(), 0.002, .01, seed=seed))
    add('null_model_dir_sign', 'n230', lambda seed: bct.null_model_dir_sign(Sb.copy(), 0.001, .01, seed=seed))
    add('pick_four_unique_nodes_quickly', 'n230', lambda seed: bct.pick_four_unique_nodes_quickly(big, seed=seed))
    add('pick_four_unique_nodes_quickly', 'n70000', lambda seed: bct.pick_four_unique_nodes_quickly(70000, seed=seed))
    Ub = G.er_connected(big, .02, 5)
    add('randmio_und', 'n230', lambda seed: bct.randmio_und(Ub.copy(), 0.05, seed=seed))
    add('randmio_und_connected', 'n230', lambda seed: bct.randmio_und_connected(Ub.copy(), 0.05, seed=seed))
    return R


_CORE = ['randmio_und', 'randmio_dir', 'randmio_und_connected', 'randmio_dir_connected', 'latmio_und', 'latmio_dir',
         'latmio_und_connected', 'latmio_dir_connected', 'randmio_und_signed', 'randmio_dir_signed', 'null_model_und_sign',
         'null_model_dir_sign', 'randomize_graph_partial_und', 'randomizer_bin_und', 'modularity_louvain_und',
         'modularity_louvain_dir', 'modularity_louvain_und_sign', 'modularity_finetune_und', 'modularity_finetune_dir',
         'modularity_finetune_und_sign', 'modularity_probtune_und_sign', 'community_louvain', 'core_periphery_dir',
         'consensus_und', 'rentian_scaling', 'generative_model', 'evaluate_generative_model', 'pick_four_unique_nodes_quickly',
         'makerandCIJ_und', 'makerandCIJ_dir', 'makeringlatticeCIJ', 'maketoeplitzCIJ', 'makeevenCIJ', 'makefractalCIJ',
         'makerandCIJdegreesfixed', 'nbs_bct']
REQUIRED = ['%s/%s' % (f, c) for f in _CORE for c in ('same_seed_same_result', 'int_seed_equals_randomstate', 'global_untouched',
                                                      'unseeded_function_of_global_state')]
MIN_EVAL = {'quick': 2, 'thorough': 2}


def seedable(bct):
    out = []
    for n, f in vars(bct).items():
        g = raw(f)
        if inspect.isfunction(g) and getattr(g, '__module__', '').startswith('bct') and not n.startswith('_'):
            try:
                if 'seed' in inspect.signature(g).parameters:
                    out.append(n)
            except (TypeError, ValueError):
                pass
    return sorted(out)


def cases(tier, seed):
    from .. import loader
    bct = loader.load()
    names = [n for n in seedable(bct) if n != 'get_rng']
    R = recipes(bct)
    out = []
    for n in names:
        if n not in R:
            out.append({'f': n, 'kind': 'uncovered'})
            continue
        for li in range(len(R[n])):
            out.append({'f': n, 'kind': 'repro', 'recipe': li, 'base': seed})
    out.append({'f': 'get_rng', 'kind': 'get_rng'})
    out.append({'f': 'nbs_parallel', 'kind': 'nbs_parallel', 'base': seed})
    if tier != 'thorough':
        out.append({'f': '*', 'kind': 'crossproc', 'base': seed, 'first_only': True})
    if tier == 'thorough':
        out.append({'f': '*', 'kind': 'crossproc', 'base': seed})
        out.append({'f': 'nbs_parallel', 'kind': 'nbs_parallel', 'base': seed + 1})
    return out


def same(a, b):
    if isinstance(a, (tuple, list)):
        return isinstance(b, (tuple, list)) and len(a) == len(b) and all(same(x, y) for x, y in zip(a, b))
    if isinstance(a, dict):
        return isinstance(b, dict) and sorted(a) == sorted(b) and all(same(a[k], b[k]) for k in a)
    a = np.asarray(a)
    b = np.asarray(b)
    if a.shape != b.shape:
        return False
    if a.dtype.kind in 'fc' or b.dtype.kind in 'fc':
        return bool(np.array_equal(a, b, equal_nan=True))
    return bool(np.array_equal(a, b))


def mkseed(s):
    return np.int64(7) if s == 'np.int64(7)' else s


def attempt(fn, seed):
    try:
        return True, fn(seed)
    except CaseTimeout:
        raise
    except Exception as e:  # noqa
        return False, e


def run(case, bct, REC):
    f = case['f']
    kind = case['kind']
    if kind == 'uncovered':
        REC.tag(PROP, 'uncovered:' + f)
        return
    if kind == 'get_rng':
        REC.tag(PROP, 'exec')
        g = bct.get_rng
        REC.check(PROP, 'get_rng', 'none_is_global', g(None) is np.random.mtrand._rand and g(np.random) is np.random.mtrand._rand, None)
        r = np.random.RandomState(3)
        REC.check(PROP, 'get_rng', 'instance_passthrough', g(r) is r, None)
        for s in (0, 1, 5, 2 ** 32 - 1, np.int64(7)):
            a = g(s)
            REC.check(PROP, 'get_rng', 'int_seed_fresh_stream', a is not np.random.mtrand._rand and
                      bool(np.array_equal(a.randint(1 << 30, size=5), np.random.RandomState(s).randint(1 << 30, size=5))), {'seed': repr(s)})
        REC.note_nontrivial(PROP, 'get_rng')
        REC.note_nontrivial(PROP, 'get_rng2')
        return
    if kind == 'crossproc':
        return crossproc(case, REC)
    if kind == 'nbs_parallel':
        return nbs_parallel(case, REC)
    label, fn = recipes(bct)[f][case['recipe']]
    heavy = label.startswith('n230')
    for s in (SEEDS[:2] if heavy else SEEDS):
        sd = mkseed(s)
        REC.tag(PROP, 'exec')
        ok1, r1 = attempt(fn, sd)
        ok2, r2 = attempt(fn, sd)
        det = {'function': f, 'recipe': label, 'seed': repr(s)}
        if not ok1 and not ok2 and type(r1) is type(r2):
            REC.tag(PROP, 'raises:%s:%s' % (f, type(r1).__name__))
            REC.skip(PROP, f, 'same_seed_same_result')
            break
        if ok1 != ok2:
            REC.check(PROP, f, 'same_seed_same_result', False, dict(det, first=repr(r1)[:150], second=repr(r2)[:150]))
            continue
        REC.check(PROP, f, 'same_seed_same_result', same(r1, r2), dict(det, first=r1, second=r2))
        ok3, r3 = attempt(fn, np.random.RandomState(int(sd)))
        REC.check(PROP, f, 'int_seed_equals_randomstate', ok3 and same(r1, r3), dict(det, int_seed=r1, randomstate=r3 if ok3 else repr(r3)[:150]))
        spy = rngmod.SpyRandomState(int(sd))
        ok4, r4 = attempt(fn, spy)
        REC.check(PROP, f, 'spy_equals_int_seed', ok4 and same(r1, r4), dict(det, int_seed=r1, spy=r4 if ok4 else repr(r4)[:150]))
        if spy.ndraws > 0:
            REC.note_nontrivial(PROP, f, label, repr(s))
            REC.tag(PROP, 'draws:' + f, spy.ndraws)
        else:
            REC.tag(PROP, 'no_draws:' + f)
        REC.schedules.add(spy.schedule_hash())
    # ---- unseeded: a function of the global state alone
    for s in ((3,) if heavy else (3, 2 ** 31)):
        REC.tag(PROP, 'exec')
        np.random.seed(s)
        ok1, r1 = attempt(fn, None)
        np.random.rand(1000)            # arbitrary interposed history
        np.random.randint(10, size=17)
        np.random.seed(s)
        ok2, r2 = attempt(fn, None)
        st = np.random.RandomState(s).get_state()
        np.random.permutation(50)
        np.random.set_state(st)
        ok3, r3 = attempt(fn, None)
        if not ok1 and not ok2 and type(r1) is type(r2):
            REC.skip(PROP, f, 'unseeded_function_of_global_state')
            break
        good = ok1 and ok2 and ok3 and same(r1, r2) and same(r1, r3)
        REC.check(PROP, f, 'unseeded_function_of_global_state', bool(good), {'function': f, 'recipe': label, 'global_seed': s})
        # and it equals the seeded run with the same stream
        ok4, r4 = attempt(fn, s)
        REC.check(PROP, f, 'unseeded_equals_seeded_stream', ok1 and ok4 and same(r1, r4), {'function': f, 'recipe': label, 'global_seed': s})
    REC.sample(PROP, {'function': f, 'recipe': label, 'seeds': SEEDS}, cap=5)


CHILD = r'''
import sys, json
sys.path.insert(0, %(here)r)
from bctmon import loader, monitor
bct = loader.load()
import numpy as np, io, contextlib
from bctmon.props import C05
out = {}
R = C05.recipes(bct)
for name in sorted(R):
    for li, (label, fn) in enumerate(R[name]):
        if %(first_only)r and (li > 0 or 'n230' in label or 'n70000' in label):
            continue
        # an integer seed, and the other hashable kinds get_rng documents (their hash is salted per process)
        for sd in ((11, 'seven', (3, 4)) if li == 0 else (11,)):
            key = '%%s/%%s' %% (name, label) + str(li) + ':' + type(sd).__name__
            try:
                with contextlib.redirect_stdout(io.StringIO()):
                    r = fn(sd)
                def flat(x):
                    if isinstance(x, (tuple, list)):
                        return [flat(y) for y in x]
                    return monitor.digest(np.asarray(x))
                out[key] = json.dumps(flat(r))
            except Exception as e:
                out[key] = 'EXC ' + type(e).__name__
print('RESULT ' + json.dumps(out))
'''


def crossproc(case, REC):
    here = os.path.dirname(os.path.dirname(os.path.dirname(os.path.abspath(__file__))))
    res = []
    for hs in (('1', '12345') if case.get('first_only') else ('1', '2', '12345')):
        env = dict(os.environ)
        env['PYTHONHASHSEED'] = hs
        p = subprocess.run([sys.executable, '-c', CHILD % {'here': here, 'first_only': bool(case.get('first_only'))}], capture_output=True, text=True, timeout=500, env=env)
        line = [l for l in p.stdout.split('\n') if l.startswith('RESULT ')]
        if not line:
            REC.check(PROP, '*', 'same_across_processes', False, {'stderr': p.stderr[-500:]})
            return
        res.append(json.loads(line[0][7:]))
    for k in sorted(res[0]):
        REC.tag(PROP, 'exec')
        REC.check(PROP, k.split('/')[0], 'same_across_processes', all(r.get(k) == res[0][k] for r in res[1:]),
                  {'recipe': k, 'digests': [r.get(k) for r in res]}, ('seed:' + k.rsplit(':', 1)[-1],))


PAR = r'''
import sys, json
sys.path.insert(0, %(here)r)
from bctmon import loader
bct = loader.load()
import numpy as np, io, contextlib
from bct import nbs_parallel
rs = np.random.RandomState(%(seed)d)
x = rs.randn(6, 6, 4); x = x + np.transpose(x, (1, 0, 2))
y = rs.randn(6, 6, 5); y = y + np.transpose(y, (1, 0, 2))
x[0, 1] += 3; x[1, 0] += 3; x[1, 2] += 3; x[2, 1] += 3
def run(seed, k, workers):
    with contextlib.redirect_stdout(io.StringIO()):
        p, a, nl = nbs_parallel.nbs_bct(x.copy(), y.copy(), 1.5, k=k, seed=seed, workers=workers)
    return [np.asarray(p).tolist(), np.asarray(a).tolist(), np.asarray(nl).tolist()]
out = {}
g0 = np.random.get_state()
# k = 40 with 2 workers: the pool hands the permutations out in chunks of 5, k = 8: one by one
for k, workers in ((40, 2), (8, 2), (24, 3)):
    s = %(seed)d + k
    a = run(s, k, workers); b = run(s, k, workers); c = run(np.random.RandomState(s), k, workers)
    out['same_%%d_%%d' %% (k, workers)] = a == b
    out['int_eq_rs_%%d_%%d' %% (k, workers)] = a == c
    out['null_%%d_%%d' %% (k, workers)] = [a[2], c[2]]
g1 = np.random.get_state()
out['global_untouched'] = bool(g0[0] == g1[0] and np.array_equal(g0[1], g1[1]) and g0[2:] == g1[2:])
np.random.seed(11); d = run(None, 24, 2); np.random.seed(11); e = run(None, 24, 2)
out['unseeded_repro'] = d == e
print('RESULT ' + json.dumps(out))
'''


def nbs_parallel(case, REC):
    here = os.path.dirname(os.path.dirname(os.path.dirname(os.path.abspath(__file__))))
    REC.tag(PROP, 'exec')
    try:
        p = subprocess.run([sys.executable, '-c', PAR % {'here': here, 'seed': int(case['base']) % 1000}], capture_output=True, text=True, timeout=300)
    except subprocess.TimeoutExpired:
        REC.tag(PROP, 'nbs_parallel_timeout')
        return
    line = [l for l in p.stdout.split('\n') if l.startswith('RESULT ')]
    if not line:
        REC.tag(PROP, 'nbs_parallel_unavailable')
        return
    r = json.loads(line[0][7:])
    f = 'nbs_parallel.nbs_bct'
    for k in sorted(r):
        if k.startswith('same_'):
            REC.check(PROP, f, 'same_seed_same_result', r[k], {'k_workers': k[5:]})
        elif k.startswith('int_eq_rs_'):
            REC.check(PROP, f, 'int_seed_equals_randomstate', r[k], {'k_workers': k[10:], 'null_int_seed': r['null_' + k[10:]][0],
                                                                     'null_randomstate': r['null_' + k[10:]][1]}, ('chunked_pool_tasks',))
    REC.check(PROP, f, 'global_untouched', r['global_untouched'], r)
    REC.check(PROP, f, 'unseeded_function_of_global_state', r['unseeded_repro'], r)
    REC.note_nontrivial(PROP, f, case['base'])
