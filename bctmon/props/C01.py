"""C01 -- degree-preserving rewiring keeps every node's degree and the weight multiset."""
import numpy as np

from ..monitor import CaseTimeout

from .. import graphs as G
from .. import oracles as O
from .. import rng as rngmod
from . import rewire as RW
from .common import two_disjoint_edges, layout_variants_agree

PROP = 'C01'
ANCHORS = RW.ALL
RULE = ('one execution = one depth-0 call of a rewiring routine (10 routines) on one input with one budget and one '
        'injected RNG schedule (Spy seed or Hostile policy); inputs: every labelled undirected graph on <=5 nodes and '
        'directed graph on 4 nodes with two vertex-disjoint edges, structured and random graphs with binary / real / '
        'tied-integer weights, plus chains of single-iteration randmio_* calls; non-trivial = output differs from input '
        '(>=1 accepted swap); distinct = distinct (routine, input digest, configuration, schedule hash)')
EXHAUSTIVE = {'quick': 'all 1099 labelled undirected graphs on <=5 nodes (those with two vertex-disjoint edges are run)',
              'thorough': 'all labelled undirected graphs on <=5 nodes and all 4096 directed graphs on 4 nodes'}
ASSUMPTIONS = ['inputs are float64 matrices with empty diagonal and at least two vertex-disjoint edges',
               'connected variants get (strongly) connected input; randomizer_bin_und gets 0/1 symmetric input',
               'in-strength / undirected strength are not demanded (documented as not preserved)',
               'a BCTParamError("No possible randomization") of randomizer_bin_und is a rejection, not a violation']
REQUIRED = ['%s/%s' % (f, c) for f in RW.ALL for c in ('indegree', 'outdegree', 'weight_multiset', 'zero_budget_identity')] + \
           ['%s/rrp_is_rlatt_reindexed' % f for f in sorted(RW.LAT)]
CASE_TIMEOUT = {'quick': 10.0, 'thorough': 60.0}

UND_F = ['randmio_und', 'randmio_und_connected', 'latmio_und', 'latmio_und_connected',
         'randomize_graph_partial_und', 'randomizer_bin_und']
DIR_F = ['randmio_dir', 'randmio_dir_connected', 'latmio_dir', 'latmio_dir_connected']
POL = sorted(p for p in rngmod.POLICIES if p != 'stall')


def cases(tier, seed):
    out = []
    thorough = tier == 'thorough'
    # (a) exhaustive undirected n<=5
    idx = 0
    for n in (4, 5):
        for bits in G.all_masks(n, False):
            A = G.from_mask(n, bits, False)
            if not two_disjoint_edges(A, False):
                continue
            idx += 1
            for f in UND_F:
                out.append({'f': f, 'g': ['mask', n, bits, False], 'w': 'bin', 'directed': False, 'kind': 'single',
                            'itrs': [0, 1, 2], 'rs': seed * 100 + idx % 97, 'pol': POL[idx % len(POL)]})
    # (b) exhaustive directed n=4
    step = 1 if thorough else 4
    for bits in range((seed % step), G.n_dir(4), step):
        A = G.from_mask(4, bits, True)
        if not two_disjoint_edges(A, True):
            continue
        idx += 1
        for f in DIR_F:
            out.append({'f': f, 'g': ['mask', 4, bits, True], 'w': 'bin', 'directed': True, 'kind': 'single',
                        'itrs': [0, 1, 2], 'rs': seed * 100 + idx % 97, 'pol': POL[idx % len(POL)]})
    # (c) structured + random
    nmax = 30 if thorough else 12
    rs = np.random.RandomState(seed + 4242)
    recs_u = G.structured_und(min(nmax, 16), seeds=(seed, seed + 1))
    nrand = 120 if thorough else 30
    for t in range(nrand):
        n = int(rs.randint(5, nmax + 1))
        p = float(rs.choice([.1, .2, .3, .5, .7, .9]))
        recs_u.append(['er', n, p, False, int(rs.randint(1 << 30))])
        recs_u.append(['named', 'er_connected', n, p / 2, int(rs.randint(1 << 30))])
    # both special paths of randomizer_bin_und at once: dense graphs (complement branch) with isolated nodes
    # (full in the complement), sparse graphs with hubs (full nodes), and mixtures, in random numbering
    for t in range(40 if thorough else 14):
        n = int(rs.randint(5, min(nmax, 14)))
        p = float(rs.choice([.6, .75, .9]) if t % 2 == 0 else rs.choice([.15, .3, .45]))
        base = ['er', n, p, False, int(rs.randint(1 << 30))]
        k1, k2 = int(rs.randint(0, 3)), int(rs.randint(0, 3))
        g = ['iso', base, k1] if k1 else base
        g = ['hub', g, k2] if k2 else g
        recs_u.append(['perm', g, int(rs.randint(1 << 30))] if t % 3 else g)
    recs_d = G.structured_dir(min(nmax, 14), seeds=(seed, seed + 1))
    for t in range(nrand):
        n = int(rs.randint(5, nmax + 1))
        p = float(rs.choice([.1, .2, .3, .5, .7, .9]))
        recs_d.append(['er', n, p, True, int(rs.randint(1 << 30))])
        recs_d.append(['named', 'er_strong', n, p / 2, int(rs.randint(1 << 30))])
    for i, g in enumerate(recs_u):
        for w in (('bin', 'real', 'int', 'logu') if thorough else (('bin', 'real', 'int', 'logu')[i % 4], 'bin')):
            for f in UND_F:
                if f == 'randomizer_bin_und' and w != 'bin':
                    continue
                out.append({'f': f, 'g': g, 'w': w, 'ws': i, 'directed': False, 'kind': 'single',
                            'itrs': [0, 1, 3] if thorough else [0, 2], 'rs': seed * 100 + i, 'pol': POL[i % len(POL)],
                            'allpol': thorough and i % 5 == 0})
    for i, g in enumerate(recs_d):
        for w in (('bin', 'real', 'int', 'logu') if thorough else (('bin', 'real', 'int', 'logu')[i % 4], 'bin')):
            for f in DIR_F:
                out.append({'f': f, 'g': g, 'w': w, 'ws': i, 'directed': True, 'kind': 'single',
                            'itrs': [0, 1, 3] if thorough else [0, 2], 'rs': seed * 100 + i, 'pol': POL[i % len(POL)],
                            'allpol': thorough and i % 5 == 0})
    # (c''') a stream that keeps offering the same two connection records for 24 000 draws before it becomes uniform
    for i, g in enumerate(recs_u[3:40:6]):
        for f in ('randmio_und', 'randmio_und_connected', 'latmio_und', 'latmio_und_connected'):   # (the signed routines draw through a recursive helper: 12 000 refusals exceed any recursion limit, an event of probability < 1e-40 with a real stream)
            out.append({'f': f, 'g': g, 'w': 'real', 'ws': i, 'directed': False, 'kind': 'single', 'itrs': [1], 'rs': seed * 100 + i, 'pol': 'stall', 'big': False, 'only_pol': True})
    # (in a directed cycle the two lowest records are 0->1 and 1->2: a path, not a pair of disjoint connections)
    for i, g in enumerate(recs_d[3:40:6] + [['named', 'dcycle', 6], ['named', 'dcycle', 9], ['named', 'dcycle_chords', 8, 2, seed], ['named', 'dcycle_chords', 11, 3, seed + 1]]):
        for f in DIR_F:
            out.append({'f': f, 'g': g, 'w': 'real', 'ws': i, 'directed': True, 'kind': 'single', 'itrs': [1], 'rs': seed * 100 + i, 'pol': 'stall', 'big': False, 'only_pol': True})
    # (c'') undirected weights that are symmetric only up to rounding (relative 1e-10, far inside the routines' own
    # symmetry tolerance): the two triangles hold different numbers and every one of them has to survive
    for i, g in enumerate(recs_u[:: (3 if thorough else 9)]):
        for f in UND_F:
            if f in ('randomizer_bin_und', 'randomize_graph_partial_und'):
                continue
            out.append({'f': f, 'g': g, 'w': ('real', 'logu', 'int')[i % 3], 'ws': i, 'directed': False, 'kind': 'symnoise',
                        'rs': seed * 100 + i, 'pol': POL[i % len(POL)]})
    # (c') sizes beyond any plausible fast-path threshold (a few hundred nodes), small budgets
    for n in ((260, 520) if thorough else (260,)):
        for f in UND_F:
            if f == 'randomize_graph_partial_und':
                continue
            out.append({'f': f, 'g': ['named', 'er_connected', n, 3.0 / n, seed + n], 'w': 'real' if f != 'randomizer_bin_und' else 'bin',
                        'ws': n, 'directed': False, 'kind': 'single', 'itrs': [1], 'rs': seed * 100 + n, 'pol': 'sticky', 'big': True})
        for f in DIR_F:
            out.append({'f': f, 'g': ['named', 'er_strong', n, 3.0 / n, seed + n], 'w': 'real', 'ws': n, 'directed': True,
                        'kind': 'single', 'itrs': [1], 'rs': seed * 100 + n, 'pol': 'sticky', 'big': True})
    # (d) trajectories of single-iteration calls
    L = 500 if thorough else 50
    chain_u = [['named', 'er_connected', 8, .3, seed], ['named', 'ring_of_cliques', 3, 3], ['named', 'grid', 3, 3],
               ['named', 'tree_chords', 9, 3, seed], ['named', 'er_connected', 12, .5, seed + 1]]
    chain_d = [['named', 'er_strong', 8, .3, seed], ['named', 'dcycle_chords', 7, 5, seed],
               ['named', 'two_blobs_dir', 4, seed], ['named', 'er_strong', 11, .4, seed + 1]]
    for i, g in enumerate(chain_u):
        for f in ('randmio_und', 'randmio_und_connected'):
            for rd in ({'kind': 'spy', 'seed': seed + i}, {'kind': 'hostile', 'policy': POL[i % len(POL)], 'seed': seed}):
                out.append({'f': f, 'g': g, 'w': ('real', 'bin', 'int')[i % 3], 'ws': i, 'directed': False,
                            'kind': 'chain', 'len': L, 'rng': rd})
    for i, g in enumerate(chain_d):
        for f in ('randmio_dir', 'randmio_dir_connected'):
            for rd in ({'kind': 'spy', 'seed': seed + i}, {'kind': 'hostile', 'policy': POL[(i + 3) % len(POL)], 'seed': seed}):
                out.append({'f': f, 'g': g, 'w': ('real', 'bin', 'int')[i % 3], 'ws': i, 'directed': True,
                            'kind': 'chain', 'len': L, 'rng': rd})
    return out


def in_domain(f, R, directed):
    if not two_disjoint_edges(R, directed):
        return False
    if f in RW.CONN:
        return O.is_strongly_connected(R) if directed else O.is_connected(R)
    return True


def feasible_mask(R, seed, density, overlap):
    """symmetric mask B; with overlap=False its support avoids R's support (then every accepted swap can be
    undone and randomize_graph_partial_und terminates with probability one)"""
    n = len(R)
    rs = np.random.RandomState(seed + 17)
    B = np.triu((rs.rand(n, n) < density).astype(float), 1)
    B = B + B.T
    if not overlap:
        B[R != 0] = 0
    return B


def count_valid_swaps(R, B):
    """ordered pairs of directed connection records (a,b), (c,d) on four distinct nodes whose target cells (a,d), (c,b)
    are free and unmasked -- what randomize_graph_partial_und can accept"""
    Bn = (R != 0)
    Bm = (np.asarray(B) != 0)
    n = len(R)
    E = [(i, j) for i in range(n) for j in range(n) if i != j and Bn[i, j]]
    cnt = 0
    for (a, b) in E:
        for (c, d) in E:
            if len({a, b, c, d}) == 4 and not (Bn[a, d] or Bn[c, b] or Bm[a, d] or Bm[c, b]):
                cnt += 1
    return cnt


def has_valid_swap(R, B):
    Bn = (R != 0)
    n = len(R)
    E = [(i, j) for i in range(n) for j in range(n) if i != j and Bn[i, j]]
    for (a, b) in E:
        for (c, d) in E:
            if len({a, b, c, d}) == 4 and not (Bn[a, d] or Bn[c, b] or B[a, d] or B[c, b]):
                return True
    return False


def run(case, bct, REC):
    f = case['f']
    directed = case['directed']
    A = G.build(case['g'])
    R = G.weigh(A, case['w'], case.get('ws', 0), symmetric=not directed)
    if not in_domain(f, R, directed):
        REC.tag(PROP, 'out_of_domain_skipped')
        return
    n = len(R)
    cap = RW.get_capture(bct)
    if case['kind'] == 'chain':
        rng = rngmod.make_rng(case['rng'])
        k = int((R != 0).sum()) if directed else int((np.tril(R) != 0).sum())
        itr1 = (1 + 1e-9) / k
        cur = R
        acc = 0
        for t in range(case['len']):
            X = RW.execute(REC, bct, f, cur, {'itr': itr1, 'link': t}, rng)
            if X is None or X.shape != R.shape:
                break
            acc += int(not np.array_equal(X, cur))
            cur = X
        # cumulative composition against the first input
        RW.post(REC, f, R, cur, False, None, classes=('chain_cumulative',))
        REC.tag(PROP, 'chain_links', case['len'])
        REC.tag(PROP, 'chain_accepted_swaps', acc)
        REC.sample(PROP, {'kind': 'chain', 'f': f, 'R': R, 'links': case['len'], 'accepted': acc, 'rng': case['rng']})
        return
    if case['kind'] == 'symnoise':
        R = R * (1 + 1e-10 * np.triu(np.random.RandomState(case['rs']).rand(n, n), 1))
        for itr, d in ((1, {'kind': 'spy', 'seed': case['rs']}), (3, {'kind': 'hostile', 'policy': case['pol'], 'seed': case['rs']})):
            Rin = R.copy()
            REC.tag(PROP, 'exec')
            try:
                res = getattr(bct, f)(R, itr, seed=rngmod.make_rng(d))
            except CaseTimeout:
                raise
            except Exception:  # noqa -- a routine may insist on exact symmetry
                REC.tag(PROP, 'nearly_symmetric_rejected:' + f)
                continue
            X = np.asarray(res[0])
            RW.post(REC, f, Rin, X, False, None, classes=('nearly_symmetric_input',))
            if not np.array_equal(X, Rin):
                REC.note_nontrivial(PROP, f, Rin, itr, 'symnoise')
        return
    pols = POL if case.get('allpol') else [case['pol']]
    descrs = [{'kind': 'spy', 'seed': case['rs']}] + [{'kind': 'hostile', 'policy': p, 'seed': case['rs']} for p in pols]
    if case.get('big'):
        descrs = descrs[:1]
    if case.get('only_pol'):
        descrs = descrs[1:]
    for itr in case['itrs']:
        for di, d in enumerate(descrs):
            rng = rngmod.make_rng(d)
            if f in RW.LAT:
                kinds = ['default', 'rand'] if (di + itr) % 2 == 0 else ['ring', 'randint']
                for dk in kinds[:1 if itr == 0 else 2]:
                    D = RW.make_D(dk, n, case['rs'], symmetric=True)
                    RW.execute(REC, bct, f, R, {'itr': itr, 'D': D, 'Dk': dk}, rngmod.make_rng(d), capture=cap)
            elif f == 'randomize_graph_partial_und':
                B = feasible_mask(R, case['rs'] + itr, [0, .15, .3][itr % 3], overlap=False)
                if itr and not has_valid_swap(R, B):
                    REC.tag(PROP, 'partial_und:no_valid_swap_skipped')
                    continue
                RW.execute(REC, bct, f, R, {'maxswap': itr, 'B': B}, rng)
            elif f == 'randomizer_bin_und':
                RW.execute(REC, bct, f, R, {'alpha': [0, .5, 1.0, 1.0][itr]}, rng)
            else:
                RW.execute(REC, bct, f, R, {'itr': itr}, rng)
                if case.get('only_pol') and f.startswith('randmio'):
                    # a budget of exactly one iteration: whatever the routine does when the stalled stream ends is what
                    # it returns (later iterations cannot tidy up after it)
                    k = int((R != 0).sum()) if directed else int((np.tril(R) != 0).sum())
                    RW.execute(REC, bct, f, R, {'itr': (1 + 1e-9) / k}, rngmod.make_rng(d))
    if n <= 8 and case['rs'] % 5 == 0:
        if f in RW.LAT:
            layout_variants_agree(REC, PROP, f, getattr(bct, f), R, args=(1,), make_kwargs=lambda: {'seed': rngmod.make_rng({'kind': 'spy', 'seed': 3})})
        elif f == 'randomize_graph_partial_und' and not has_valid_swap(R, np.zeros((n, n))):
            pass
        elif f == 'randomize_graph_partial_und':
            layout_variants_agree(REC, PROP, f, getattr(bct, f), R, args=(np.zeros((n, n)), 1), make_kwargs=lambda: {'seed': rngmod.make_rng({'kind': 'spy', 'seed': 3})})
        elif f == 'randomizer_bin_und':
            layout_variants_agree(REC, PROP, f, getattr(bct, f), R, args=(1.0,), make_kwargs=lambda: {'seed': rngmod.make_rng({'kind': 'spy', 'seed': 3})})
        else:
            layout_variants_agree(REC, PROP, f, getattr(bct, f), R, args=(2,), make_kwargs=lambda: {'seed': rngmod.make_rng({'kind': 'spy', 'seed': 3})})
    REC.sample(PROP, {'kind': 'single', 'f': f, 'R': R if n <= 8 else case['g'], 'itrs': case['itrs'], 'rngs': descrs})
