"""C19 -- NBS reports true suprathreshold components and correct permutation p-values."""
import numpy as np

from .. import oracles as O
from .. import rng as rngmod
from .common import call
from ..monitor import CaseTimeout

PROP = 'C19'
ANCHORS = ['nbs_bct']
RULE = ('one execution = one nbs_bct call on synthetic subject stacks (n <= 8 nodes; group sizes (3,3), (3,5), (6,4), (8,8); '
        'planted effects of either sign on one connected or two disjoint subgraphs, or none; constant edges; per-edge '
        'scales spanning 12 orders of magnitude; thresholds around the planted effect; every tail; paired and unpaired; '
        'k in {10,50} quick / 500 thorough); the observed adjacency is compared with scipy t statistics + BFS components, '
        'p-values with the returned null, and every null value is recomputed by REPLAYING the recorded history: the '
        'SpyRandomState passed as seed logs the k relabellings actually drawn, the oracle applies each to the data; '
        'metamorphic: swapped groups + swapped tail, reordered subjects; non-trivial = >= 2 observed components or a '
        'component with >= 3 links, and a null with >= 2 distinct values')
EXHAUSTIVE = {}
ASSUMPTIONS = ['the t statistic of an unpaired edge with zero pooled variance is taken as 0 (the library convention)',
               'paired edges whose difference is a nonzero constant (undefined statistic) are not generated',
               'a threshold closer than 1e-9 (relative) to some t statistic makes that relabelling unjudged (rounding)',
               'a call where no edge exceeds the threshold must raise BCTParamError (counted, not judged as failure)']
REQUIRED = ['nbs_bct/adjacency_support', 'nbs_bct/component_labels', 'nbs_bct/pvalues', 'nbs_bct/null_replayed',
            'nbs_bct/null_length', 'nbs_bct/symmetric_adjacency', 'nbs_bct/swap_groups_and_tail', 'nbs_bct/reorder_subjects',
            'nbs_bct/rejects_unsuitable_threshold']
CASE_TIMEOUT = {'quick': 120.0, 'thorough': 900.0}
MIN_EVAL = {'quick': 3, 'thorough': 10}


def make_data(case):
    rs = np.random.RandomState(case['ds'])
    n, nx, ny = case['n'], case['nx'], case['ny']
    def stack(cnt):
        S = rs.randn(n, n, cnt)
        S = S + np.transpose(S, (1, 0, 2))
        if not case.get('diag'):
            for s in range(cnt):
                np.fill_diagonal(S[:, :, s], 0)
        return S
    x, y = stack(nx), stack(ny)
    eff = case['effect']
    if case.get('diag'):
        # self-connections that differ between the groups more than any connection does: they are not connections
        for i in (0, 2, n - 1):
            x[i, i, :] += 6.0
    if eff:
        edges = case['edges']
        for (i, j, sgn) in edges:
            x[i, j, :] += sgn * eff
            x[j, i, :] += sgn * eff
    if case.get('const') and not case.get('scales'):
        # (constant edges are only combined with exactly representable values: after an arbitrary rescaling the
        #  "zero" variance of a constant sample is rounding noise on both sides)
        i, j = case['const']
        x[i, j, :] = x[j, i, :] = 1.0
        # paired: a constant NONZERO difference has an undefined (0-variance, +-inf) statistic whose floating-point
        # evaluation is rounding noise on both sides; only the identical-constant edge (difference exactly 0) is used
        # (a constant NONZERO paired difference gives an exactly infinite statistic as long as the values are small
        #  integers: exact arithmetic on both sides; rescaled data never reaches this branch)
        y[i, j, :] = y[j, i, :] = 1.0 if case.get('const_same', True) else 2.0
    if case.get('scales'):
        sc = 10.0 ** rs.uniform(-12, 0, size=(n, n))
        sc = np.triu(sc, 1)
        sc = sc + sc.T
        x = x * sc[:, :, None]
        y = y * sc[:, :, None]
    if case.get('counts'):
        # integer-valued data (streamline counts) -- exactly representable in every numeric dtype
        x = np.round(np.abs(x) * 20)
        y = np.round(np.abs(y) * 20)
    return x, y


def cases(tier, seed):
    thorough = tier == 'thorough'
    rs = np.random.RandomState(seed + 1919)
    out = []
    sizes = [(3, 3), (3, 5), (6, 4), (8, 8)]
    nrep = 24 if thorough else 8
    for rep in range(nrep):
        for (nx, ny) in sizes:
            for tail in ('both', 'left', 'right'):
                for paired in (False, True):
                    if paired and nx != ny:
                        continue
                    n = int(rs.randint(5, 9)) if rep % 4 else int(rs.randint(10, 15))
                    kindsel = int(rs.randint(0, 6))
                    if kindsel == 0:
                        edges, eff = [], 0.0
                    elif kindsel in (1, 2):
                        edges = [(0, 1, 1), (1, 2, 1), (2, 3, 1), (0, 3, 1)]
                        eff = 4.0
                    elif kindsel == 3:
                        edges = [(0, 1, -1), (1, 2, -1), (3, 4, -1)]
                        eff = 4.0
                    else:
                        edges = [(0, 1, 1), (1, 2, -1), (3, 4, 1), (n - 1, n - 2, 1)]
                        eff = 3.0
                    c = {'n': n, 'nx': nx, 'ny': ny, 'tail': tail, 'paired': paired, 'ds': int(rs.randint(1 << 30)),
                         'edges': edges, 'effect': eff, 'k': (500 if rep == 0 else 50) if thorough else [10, 50, 25, 50][rep % 4],
                         'thr': float(rs.choice([1.0, 1.5, 2.0, 3.0])) if rep % 4 else float(rs.choice([1.6, 1.9, 2.2])), 'rs': seed * 100 + rep,
                         'const': (n - 1, 0) if rep % 2 == 0 else None, 'const_same': bool(rs.rand() < .5),
                         'scales': (rep + nx) % 3 == 0}
                    if rep % 3 == 2:
                        c['diag'] = True
                    if rep % 8 == 5 and not paired:
                        c['thr'] = -0.5           # every connection is suprathreshold, zero-variance ones included
                    out.append(c)
                    if rep % 4 == 1:
                        out.append(dict(c, counts=True, scales=False, const=None, thr=1.0, k=10))
    # many permutations in one call (thousands of draws from one stream): a paired and an unpaired run
    for paired in (True, False):
        out.append({'n': 5, 'nx': 4, 'ny': 4, 'tail': 'both', 'paired': paired, 'ds': seed + 77, 'edges': [(0, 1, 1), (1, 2, 1), (2, 3, 1)], 'effect': 4.0,
                    'k': 9000 if thorough else 4400, 'thr': 1.5, 'rs': seed * 100 + 77, 'const': None, 'const_same': True, 'scales': False})
    # 13-15 nodes, a threshold that leaves about one connection per node: relabellings whose suprathreshold graph has
    # several components of comparable size (a small dense one beside a larger sparse one: most nodes != most links)
    # (simulated rate of "most nodes != most links": about 1e-3 per relabelling at 15 nodes with one connection in ten
    #  suprathreshold, 0 below 10 nodes -- hence ~10 000 relabellings here)
    for t in range(24 if thorough else 8):
        # (8 + 8 subjects: 12 870 distinct splits; with 4 + 4 there are only 70 and a thousand relabellings explore nothing new)
        out.append({'n': 15, 'nx': 8, 'ny': 8, 'tail': ['both', 'right', 'left'][t % 3], 'paired': False, 'ds': seed * 31 + t,
                    'edges': [(0, 1, 1), (1, 2, 1), (2, 3, 1)], 'effect': 3.0, 'k': 2500 if thorough else 1200,
                    'thr': [1.76, 1.345, 1.345][t % 3], 'rs': seed * 100 + 50 + t, 'const': None, 'const_same': True, 'scales': False})
    return out


def oracle_t(xm, ym, tail, paired):
    """xm: (m, nx), ym: (m, ny) -> per-edge statistic oriented by tail"""
    if paired:
        t = O.tstat_rel(xm.T, ym.T)
    else:
        t = np.array(O.tstat_ind(xm.T, ym.T), dtype=float)
        # zero pooled variance -> 0 by the library's convention
        const = np.all(xm == xm[:, :1], axis=1) & np.all(ym == ym[:, :1], axis=1)   # exactly constant in both groups
        t = np.where(const, 0.0, t)
    t = np.asarray(t, dtype=float)
    if tail == 'both':
        return np.abs(t)
    if tail == 'left':
        return -t
    return t


def comps_links(n, ix, sup):
    """components of the suprathreshold graph: list of (sorted nodes, number of links) for components with >= 2 nodes"""
    A = np.zeros((n, n))
    A[ix[0][sup], ix[1][sup]] = 1
    A = A + A.T
    lab, m = O.components(A)
    out = []
    for c in range(m):
        nodes = np.where(lab == c)[0]
        if len(nodes) > 1:
            out.append((nodes.tolist(), int(A[np.ix_(nodes, nodes)].sum() / 2)))
    return A, out


def margin_ok(t, thr):
    t = t[np.isfinite(t)]
    return bool(np.all(np.abs(t - thr) > 1e-9 * max(1.0, abs(thr))))


def observed_partition(adj):
    adj = np.asarray(adj)
    labs = sorted(set(adj[adj != 0].tolist()))
    return sorted(sorted(map(tuple, np.argwhere(np.triu(adj == l, 1)).tolist())) for l in labs)


def run(case, bct, REC):
    x, y = make_data(case)
    n, nx, ny = case['n'], case['nx'], case['ny']
    tail, paired, k, thr = case['tail'], case['paired'], case['k'], case['thr']
    ix = np.where(np.triu(np.ones((n, n)), 1))
    m = len(ix[0])
    xm = np.array([x[:, :, s][ix] for s in range(nx)]).T
    ym = np.array([y[:, :, s][ix] for s in range(ny)]).T
    t = oracle_t(xm, ym, tail, paired)
    sup = np.where(t > thr)[0]
    REC.tag(PROP, 'exec')
    rng = rngmod.SpyRandomState(case['rs'], keep=True)
    det = {'case': {kk: v for kk, v in case.items()}, 't_oracle': t}
    if len(sup) == 0:
        if not margin_ok(t, thr):
            return
        try:
            bct.nbs_bct(x.copy(), y.copy(), thr, k=k, tail=tail, paired=paired, seed=rng)
            REC.check(PROP, 'nbs_bct', 'rejects_unsuitable_threshold', False, dict(det, outcome='returned'))
        except bct.BCTParamError:
            REC.check(PROP, 'nbs_bct', 'rejects_unsuitable_threshold', True)
        except CaseTimeout:
            raise
        except Exception as e:  # noqa
            REC.check(PROP, 'nbs_bct', 'rejects_unsuitable_threshold', False, dict(det, outcome=repr(e)[:200]))
        return
    if not margin_ok(t, thr):
        REC.tag(PROP, 'observed_threshold_margin_too_small_skipped')
        return
    ok, res = call(REC, PROP, 'nbs_bct', bct.nbs_bct, x.copy(), y.copy(), thr, k=k, tail=tail, paired=paired, seed=rng)
    if not ok:
        return
    pvals, adj, null = res
    pvals, adj, null = np.asarray(pvals), np.asarray(adj), np.asarray(null)
    A, comps = comps_links(n, ix, sup)
    det = dict(det, adj=adj, pvals=pvals, null=null)
    REC.check(PROP, 'nbs_bct', 'symmetric_adjacency', adj.shape == (n, n) and bool(np.array_equal(adj, adj.T)), det)
    REC.check(PROP, 'nbs_bct', 'adjacency_support', adj.shape == (n, n) and bool(np.array_equal(adj != 0, A != 0)), dict(det, expected_support=A))
    # labels: constant on each component, distinct across, forming 1..C
    lab_ok = adj.shape == (n, n)
    seen = []
    if lab_ok:
        for nodes, links in comps:
            vals = set(adj[np.ix_(nodes, nodes)][A[np.ix_(nodes, nodes)] != 0].tolist())
            if len(vals) != 1:
                lab_ok = False
                break
            seen.append((vals.pop(), links))
        lab_ok = lab_ok and sorted(v for v, _ in seen) == list(range(1, len(comps) + 1))
    REC.check(PROP, 'nbs_bct', 'component_labels', bool(lab_ok), dict(det, expected_components=comps))
    REC.check(PROP, 'nbs_bct', 'null_length', null.shape == (k,), det)
    if lab_ok:
        pv_ok = pvals.shape == (len(comps),)
        if pv_ok:
            for v, links in seen:
                exp = float(np.sum(null >= links)) / k
                if abs(pvals[int(v) - 1] - exp) > 1e-12:
                    pv_ok = False
        REC.check(PROP, 'nbs_bct', 'pvalues', bool(pv_ok), dict(det, components=seen))
    # ---- replay the recorded history
    if null.shape == (k,):
        draws = [(mname, val) for (mname, a, val) in rng.log if mname in ('permutation', 'rand')]
        want = 'rand' if paired else 'permutation'
        shape_ok = len(draws) == k and all(mn == want for mn, _ in draws) and \
            all((np.asarray(v).size == (nx if paired else nx + ny)) for _, v in draws)
        if shape_ok:
            d0 = np.hstack((xm, ym))
            bad = None
            judged = 0
            for u, (_, val) in enumerate(draws):
                if paired:
                    sg = np.sign(0.5 - np.asarray(val).reshape(-1))
                    d = d0 * np.hstack((sg, sg))[None, :]
                    tp = oracle_t(d[:, :nx], d[:, nx:], tail, True)
                else:
                    d = d0[:, np.asarray(val).reshape(-1)]
                    tp = oracle_t(d[:, :nx], d[:, d.shape[1] - ny:], tail, False)
                if not margin_ok(tp, thr):
                    continue
                judged += 1
                _, cp = comps_links(n, ix, np.where(tp > thr)[0])
                exp = max([l for _, l in cp]) if cp else 0
                if null[u] != exp:
                    bad = bad or {'u': u, 'got': float(null[u]), 'expected': exp, 'relabelling': np.asarray(val).reshape(-1)}
            REC.check(PROP, 'nbs_bct', 'null_replayed', bad is None, dict(det, first_bad=bad, judged=judged))
            REC.tag(PROP, 'relabellings_replayed', judged)
        else:
            # sound-but-weaker fallback: every null value must be a possible maximal component size (0..m)
            REC.tag(PROP, 'history_shape_unexpected:fallback')
            REC.tag(PROP, 'INCONCLUSIVE:nbs_bct drew its relabellings in an unexpected pattern (not one draw per permutation): the null values could not be replayed')
            REC.check(PROP, 'nbs_bct', 'null_in_range', bool(np.all((null >= 0) & (null <= m) & (null == np.round(null)))), det)
    # ---- metamorphic
    part = observed_partition(adj) if adj.shape == (n, n) else None
    swapped_tail = {'both': 'both', 'left': 'right', 'right': 'left'}[tail]
    try:
        _, adj2, _ = bct.nbs_bct(y.copy(), x.copy(), thr, k=2, tail=swapped_tail, paired=paired, seed=case['rs'])
        REC.check(PROP, 'nbs_bct', 'swap_groups_and_tail', observed_partition(adj2) == part, dict(det, adj_swapped=adj2))
    except CaseTimeout:
        raise
    except Exception as e:  # noqa
        REC.check(PROP, 'nbs_bct', 'swap_groups_and_tail', False, dict(det, exception=repr(e)[:200]))
    rs = np.random.RandomState(case['ds'] + 1)
    px = rs.permutation(nx)
    py = px if paired else rs.permutation(ny)
    try:
        _, adj3, _ = bct.nbs_bct(x[:, :, px].copy(), y[:, :, py].copy(), thr, k=2, tail=tail, paired=paired, seed=case['rs'])
        REC.check(PROP, 'nbs_bct', 'reorder_subjects', observed_partition(adj3) == part, dict(det, adj_reordered=adj3))
    except CaseTimeout:
        raise
    except Exception as e:  # noqa
        REC.check(PROP, 'nbs_bct', 'reorder_subjects', False, dict(det, exception=repr(e)[:200]))
    if case.get('counts'):
        # the same values stored as unsigned / signed integers and float32 must give the same answer
        for dt in (np.uint16, np.uint8 if max(x.max(), y.max()) < 256 else np.uint32, np.int64, np.float32):
            try:
                p2, a2, n2 = bct.nbs_bct(x.astype(dt), y.astype(dt), thr, k=k, tail=tail, paired=paired, seed=rngmod.SpyRandomState(case['rs']))
            except CaseTimeout:
                raise
            except Exception as e:  # noqa
                REC.check(PROP, 'nbs_bct', 'dtype_independent', False, dict(det, dtype=str(np.dtype(dt)), exception=repr(e)[:200]), ('dtype:' + str(np.dtype(dt)),))
                continue
            same = np.array_equal(np.asarray(a2), adj) and np.allclose(np.asarray(p2), pvals, rtol=0, atol=1e-12) and np.array_equal(np.asarray(n2), null)
            REC.check(PROP, 'nbs_bct', 'dtype_independent', bool(same), dict(det, dtype=str(np.dtype(dt)), adj_dtype=a2, pvals_dtype=p2), ('dtype:' + str(np.dtype(dt)),))
    if (len(comps) >= 2 or any(l >= 3 for _, l in comps)) and len(set(null.tolist())) >= 2:
        REC.note_nontrivial(PROP, x, y, thr, tail, paired, k)
    if len(comps) >= 2:
        REC.tag(PROP, 'class:two_or_more_observed_components')
    REC.schedules.add(rng.schedule_hash())
    REC.sample(PROP, {'case': case, 'components': comps, 'pvals': pvals, 'null_head': null[:10]}, cap=3)
