"""C02 -- community detectors return a valid partition and its true modularity."""
import numpy as np

from .. import graphs as G
from .. import oracles as O
from .. import rng as rngmod
from . import modq
from .common import layout_variants_agree, vector_forms_agree

PROP = 'C02'
ANCHORS = modq.ALL
RULE = ('one execution = one call of a community-detection routine (11 routines) on one network with one gamma / qtype / '
        'objective / start partition and one injected node-visiting schedule; the returned labels must be exactly 1..k '
        'and the returned q must equal the modularity recomputed from its definition (independent O(n^2) masked sum) for '
        'the returned partition, level by level for hierarchical output; inputs: planted partitions, rings of cliques, '
        'bipartite, stars, disconnected graphs, isolated nodes, self-weights, binary / weighted / directed / signed; '
        'non-trivial = the result has >= 2 modules and differs from the start (or a partition was given)')
EXHAUSTIVE = {}
ASSUMPTIONS = ['positive total weight; signed inputs have at least one positive entry', 'q is compared only with the '
               'definition evaluated on the RETURNED partition, never with a pinned number',
               "for B='potts' q is the sum of the objective matrix over same-module pairs divided by the total weight"]
REQUIRED = ['%s/labels_1_to_k' % f for f in modq.LOUVAIN + modq.FINETUNE + ['modularity_probtune_und_sign', 'modularity_und', 'modularity_dir']] + \
           ['%s/q_matches_definition' % f for f in modq.ALL] + ['%s/partition_returned' % f for f in ('modularity_und', 'modularity_dir', 'modularity_und_sign')]
CASE_TIMEOUT = {'quick': 60.0, 'thorough': 300.0}
GAMMAS = [1.0, 0.7, 1.3]
POL = ['ident', 'rev', 'low', 'sticky', 'coinhi']


def networks(tier, seed):
    """list of (recipe, kind, weight scheme, weight seed); kind in und/dir/signed"""
    thorough = tier == 'thorough'
    rs = np.random.RandomState(seed + 2002)
    nmax = 40 if thorough else 12
    out = []
    und = [['named', 'ring_of_cliques', 4, 3], ['named', 'ring_of_cliques', 3, 4], ['named', 'kab', 3, 3], ['named', 'star', 7],
           ['disjoint', ['named', 'complete', 4], ['named', 'complete', 3]], ['iso', ['named', 'ring_of_cliques', 3, 3], 2],
           ['named', 'barbell', 4, 1], ['named', 'grid', 3, 3], ['named', 'complete', 6], ['named', 'path', 2], ['named', 'cycle', 8]]
    for t in range(150 if thorough else 10):
        n = int(rs.randint(6, nmax + 1))
        k = int(rs.randint(2, 5))
        und.append(['named', 'planted', n, k, float(rs.choice([.6, .8, .95])), float(rs.choice([.02, .1, .25])), False, int(rs.randint(1 << 30))])
        und.append(['er', n, float(rs.choice([.15, .3, .6])), False, int(rs.randint(1 << 30))])
    dr = [['named', 'dcycle_chords', 8, 6, seed], ['named', 'two_blobs_dir', 4, seed], ['named', 'tournament', 7, seed],
          ['named', 'dag', 7, .5, seed]]
    for t in range(150 if thorough else 10):
        n = int(rs.randint(6, nmax + 1))
        k = int(rs.randint(2, 5))
        dr.append(['named', 'planted', n, k, float(rs.choice([.5, .7, .9])), float(rs.choice([.02, .1, .2])), True, int(rs.randint(1 << 30))])
        dr.append(['er', n, float(rs.choice([.15, .3, .6])), True, int(rs.randint(1 << 30))])
    for i, g in enumerate(und):
        out.append((g, 'und', ['bin', 'real', 'int'][i % 3], i))
    for i, g in enumerate(dr):
        out.append((g, 'dir', ['bin', 'real', 'int'][i % 3], i))
    for i, g in enumerate(und[::2] + [['named', 'complete', 7], ['named', 'complete', 10]]):
        out.append((g, 'signed', ['signed', 'signedint'][i % 2], i))
    # one sign present only as a faint trace / all weights tiny: totals below any absolute tolerance
    for i, g in enumerate(und[::3]):
        out.append((g, 'signed', ['faintneg', 'faintpos', 'alltiny'][i % 3], i))
    # the signed routines are documented for networks that happen to have no negative weights too
    for i, g in enumerate(und[1::4]):
        out.append((g, 'signed', ['real', 'int', 'bin'][i % 3], i))
    # signed integer weights that cancel exactly: the total weight of the network is 0 (any normalisation by it is 0/0)
    for i, g in enumerate(und[::2]):
        out.append((g, 'signed', 'zerosum', i))
    # directed AND signed: community_louvain's negative_sym / negative_asym objectives (out- times in-strength null model
    # on each sign)
    for i, g in enumerate(dr[1::2]):
        out.append((g, 'dirsigned', ['signed', 'signedint'][i % 2], i))
    # everything on a 1e-10 scale with a third of the connections slightly negative, none below -1e-10: the plain
    # 'modularity' objective accepts such input (its own tolerance) and has to score it as it is
    for i, g in enumerate(und[1::3]):
        out.append((g, 'und', 'tinyneg', i))
    # connection COUNTS: integer dtype, total weight far above 2**31
    for i, g in enumerate(und[2::5]):
        out.append((g, 'und', 'counts', i))
    for i, g in enumerate(dr[2::5]):
        out.append((g, 'dir', 'counts', i))
    return out


def build_net(g, kind, w, ws, selfw=False):
    A = G.build(g)
    directed = kind in ('dir', 'dirsigned')
    if w == 'counts':
        # total weight 4e9..8e9 (its square does not fit in int64) while every product of two node strengths still
        # does (< 2**62): beyond that the unchanged library itself overflows in np.outer(k, k) -- see DESIGN 5.3
        rs = np.random.RandomState(ws + 9)
        E = max(1.0, float((A != 0).sum()))
        tot = rs.uniform(4e9, 8e9)
        Wt = (rs.uniform(.5, 1.0, size=A.shape) * tot / (0.75 * E)).astype(np.int64)
        if not directed:
            Wt = np.triu(Wt, 1)
            Wt = Wt + Wt.T
        W = (A.astype(np.int64) * Wt).astype(np.int64)
        ko, ki = W.sum(1).astype(float), W.sum(0).astype(float)
        if ko.max() * ki.max() >= 2.0 ** 62:
            W = (W // 8).astype(np.int64)
        return W
    if w == 'tinyneg':
        rs = np.random.RandomState(ws + 11)
        Wt = rs.uniform(.2, .99, size=A.shape) * 1e-10 * np.where(rs.rand(*A.shape) < .33, -1.0, 1.0)
        Wt = np.triu(Wt, 1)
        W = A * (Wt + Wt.T)
        if W.sum() <= 0:
            W = np.abs(W)
        return W
    if w == 'zerosum':
        W = G.weigh(A, 'signedint', ws, symmetric=True)
        i, j = np.where(np.triu(A, 1))
        half = int(np.triu(W, 1).sum())
        for e in range(len(i)):        # shift one connection so that the upper triangle (hence the matrix) sums to 0
            if W[i[e], j[e]] - half != 0:
                W[i[e], j[e]] = W[j[e], i[e]] = W[i[e], j[e]] - half
                break
        return W
    if w in ('faintneg', 'faintpos', 'alltiny'):
        rs = np.random.RandomState(ws + 3)
        W = G.weigh(A, 'int', ws, symmetric=True)
        i, j = np.where(np.triu(A, 1))
        if w == 'alltiny':
            W = G.weigh(A, 'signed', ws, symmetric=True) * 1e-10
        elif len(i):
            e = rs.randint(len(i))
            if w == 'faintneg':
                W[i[e], j[e]] = W[j[e], i[e]] = -1e-9
            else:
                W = -W
                W[i[e], j[e]] = W[j[e], i[e]] = 1e-9
    else:
        W = G.weigh(A, w, ws, symmetric=not directed)
    if kind == 'signed' and not (W > 0).any():
        W = np.abs(W)
    if selfw:
        rs = np.random.RandomState(ws + 5)
        W = W.copy()
        d = rs.rand(len(W)) * (rs.rand(len(W)) < .5)
        if kind == 'signed':   # signed networks may carry negative self-connections
            d = d * rs.choice([-1.0, 1.0], size=len(W))
        W[np.arange(len(W)), np.arange(len(W))] = d
    return W


def starts(n, g, seed):
    rs = np.random.RandomState(seed)
    out = [None, (np.arange(n) % 3 + 1), np.ones(n, dtype=int), np.arange(n) + 1,
           rs.randint(1, 4, size=n), (rs.randint(0, 3, size=n) * 7 + 20), rs.permutation(n) + 1]
    return out


def cases(tier, seed):
    out = []
    for i, (g, kind, w, ws) in enumerate(networks(tier, seed)):
        out.append({'g': g, 'kind': kind, 'w': w, 'ws': ws, 'rs': seed * 100 + i, 'selfw': i % 7 == 3})
    return out


def run(case, bct, REC):
    kind = case['kind']
    W = build_net(case['g'], kind, case['w'], case['ws'], case['selfw'])
    n = len(W)
    if W.sum() <= 0 and kind not in ('signed', 'dirsigned'):
        return
    if kind == 'signed' and not (W > 0).any():
        return
    rsd = case['rs']
    sts = starts(n, case['g'], rsd)

    def rngs(k=2):
        return [rngmod.make_rng({'kind': 'spy', 'seed': rsd})] + \
               [rngmod.make_rng({'kind': 'hostile', 'policy': POL[(rsd + j) % len(POL)], 'seed': rsd}) for j in range(k - 1)]
    binary = bool(np.all((W == 0) | (W == 1)))
    if kind == 'dirsigned':
        if not (W > 0).any() or not (W < 0).any():
            return
        for g in GAMMAS:
            for B in ('negative_sym', 'negative_asym'):
                for r in rngs():
                    modq.execute(REC, bct, 'community_louvain', W, {'gamma': g, 'B': B}, r)
                for st in sts[1:6]:
                    modq.execute(REC, bct, 'community_louvain', W, {'gamma': g, 'B': B}, rngs(1)[0], start=st)
        return
    if case['w'] == 'tinyneg':
        # only the routine that documents a tolerance for slightly negative input
        for g in GAMMAS:
            for r in rngs():
                modq.execute(REC, bct, 'community_louvain', W, {'gamma': g, 'B': 'modularity'}, r)
            for st in sts[1:5]:
                modq.execute(REC, bct, 'community_louvain', W, {'gamma': g, 'B': 'modularity'}, rngs(1)[0], start=st)
        return
    if kind == 'und':
        for g in GAMMAS:
            for r in rngs():
                modq.execute(REC, bct, 'modularity_louvain_und', W, {'gamma': g}, r)
            modq.execute(REC, bct, 'modularity_louvain_und', W, {'gamma': g, 'hierarchy': True}, rngs(1)[0])
            for r in rngs():
                modq.execute(REC, bct, 'community_louvain', W, {'gamma': g, 'B': 'modularity'}, r)
            if binary and not case['selfw']:
                modq.execute(REC, bct, 'community_louvain', W, {'gamma': g, 'B': 'potts'}, rngs(1)[0])
            for si, st in enumerate(sts):
                modq.execute(REC, bct, 'modularity_finetune_und', W, {'gamma': g}, rngs(1)[0], start=st)
                if si in (1, 2, 4, 6):
                    modq.execute(REC, bct, 'community_louvain', W, {'gamma': g, 'B': 'modularity'}, rngs(1)[0], start=st)
            modq.execute(REC, bct, 'modularity_und', W, {'gamma': g}, None)
            modq.execute(REC, bct, 'modularity_und', W, {'gamma': g}, None, start=np.arange(n) % 3 + 1)
            # a given partition is a partition whatever its label values: zero-based, negative, gapped
            for st in (np.arange(n) % 3, np.arange(n) % 3 - 1, (np.arange(n) % 4) * 7 - 9):
                modq.execute(REC, bct, 'modularity_und', W, {'gamma': g}, None, start=st)
        modq.execute(REC, bct, 'modularity_und', W, {'gamma': 1.0}, None, start=np.unique(sts[4], return_inverse=True)[1] + 1)
    elif kind == 'dir':
        for g in GAMMAS:
            for r in rngs():
                modq.execute(REC, bct, 'modularity_louvain_dir', W, {'gamma': g}, r)
                modq.execute(REC, bct, 'community_louvain', W, {'gamma': g, 'B': 'modularity'}, r)
            modq.execute(REC, bct, 'modularity_louvain_dir', W, {'gamma': g, 'hierarchy': True}, rngs(1)[0])
            for st in sts:
                modq.execute(REC, bct, 'modularity_finetune_dir', W, {'gamma': g}, rngs(1)[0], start=st)
            modq.execute(REC, bct, 'modularity_dir', W, {'gamma': g}, None)
            modq.execute(REC, bct, 'modularity_dir', W, {'gamma': g}, None, start=np.arange(n) % 3 + 1)
            for st in (np.arange(n) % 3, np.arange(n) % 3 - 1, (np.arange(n) % 4) * 7 - 9):
                modq.execute(REC, bct, 'modularity_dir', W, {'gamma': g}, None, start=st)
    else:
        for g in GAMMAS:
            for qt in modq.QTYPES:
                if qt in ('smp', 'neg') and not (W < 0).any():
                    continue
                for r in rngs():
                    modq.execute(REC, bct, 'modularity_louvain_und_sign', W, {'gamma': g, 'qtype': qt}, r)
                for si, st in enumerate(sts[:5]):
                    modq.execute(REC, bct, 'modularity_finetune_und_sign', W, {'gamma': g, 'qtype': qt}, rngs(1)[0], start=st)
                    if si in (0, 4):
                        modq.execute(REC, bct, 'modularity_probtune_und_sign', W, {'gamma': g, 'qtype': qt, 'p': .45}, rngs(1)[0], start=st)
                if g == 1.0:
                    modq.execute(REC, bct, 'modularity_und_sign', W, {'qtype': qt, 'gamma': 1.0}, None, start=np.arange(n) % 3 + 1)
                    for st in (np.arange(n) % 3, np.arange(n) % 3 - 1, (np.arange(n) % 4) * 7 - 9):
                        modq.execute(REC, bct, 'modularity_und_sign', W, {'qtype': qt, 'gamma': 1.0}, None, start=st)
                    modq.execute(REC, bct, 'modularity_und_sign', W, {'qtype': qt, 'gamma': 1.0}, None, start=np.unique(sts[4], return_inverse=True)[1] + 1)
            if (W < 0).any():
                for B in ('negative_sym', 'negative_asym'):
                    for r in rngs():
                        modq.execute(REC, bct, 'community_louvain', W, {'gamma': g, 'B': B}, r)
                    modq.execute(REC, bct, 'community_louvain', W, {'gamma': g, 'B': B}, rngs(1)[0], start=sts[4])
    if n <= 14:
        st3 = np.arange(n) % 3 + 1
        if kind == 'und':
            vector_forms_agree(REC, PROP, 'modularity_und', lambda X, c: bct.modularity_und(X, 1.0, c)[1], (W, st3), {}, 1)
        elif kind == 'dir':
            vector_forms_agree(REC, PROP, 'modularity_dir', lambda X, c: bct.modularity_dir(X, 1.0, c)[1], (W, st3), {}, 1)
        else:
            vector_forms_agree(REC, PROP, 'modularity_und_sign', lambda X, c: bct.modularity_und_sign(X, c)[1], (W, st3), {}, 1)
    # (no layout differential here: a 1-ulp difference in a strided sum may legitimately flip an argmax tie of the optimiser)
    REC.sample(PROP, {'W': W if n <= 8 else case['g'], 'kind': kind}, cap=4)
