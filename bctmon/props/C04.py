"""C04 -- graph measures are equivariant under renumbering of nodes."""
import itertools

import numpy as np

from .. import graphs as G
from .. import oracles as O
from .common import close
from ..monitor import CaseTimeout

PROP = 'C04'
RULE = ('one execution = one deterministic measure evaluated on a network A and on the renumbered network A[p,p] '
        '(metamorphic monitor; the measure itself is the oracle); each output has a declared kind: node vector (compare '
        'with out[p]), pair matrix (out[p,p]), scalar / distribution over degree / vector over k (unchanged), partition '
        '(same co-membership, permuted), multiset, 3-D walk tensor; ~75 measure configurations, each fed only graphs of '
        'its documented domain; ALL n! permutations for every graph of the exhaustive families with n<=4 (quick) / 5 '
        '(thorough), random permutations + reversal + one transposition for structured / random graphs (highly '
        'symmetric ones over-represented); non-trivial = p is not an automorphism of A')
EXHAUSTIVE = {'quick': 'all n! node permutations of every labelled undirected graph on <=4 nodes and directed graph on <=3 nodes',
              'thorough': 'all n! node permutations of every labelled undirected graph on <=4 nodes, of a seed-dependent quarter of the '
                          '1024 graphs on 5 nodes (14 renumberings each for the rest) and of every fourth directed graph on 4 nodes'}
ASSUMPTIONS = ['assortativity_wei with flag 1-4 raises ValueError on every input (upstream unpacking bug): unobservable, not in the table',
               'rtol 1e-9 / atol 1e-12 with identical NaN and inf positions (renumbering changes summation order)',
               'tie-dependent outputs are excluded (hop matrix of distance_wei, hops/Pmat of distance_wei_floyd, navigation paths)',
               'eigenvector_centrality_und only on connected graphs (simple lambda_max)',
               'both sides raising the same exception type = unobservable (skip); exactly one raising = violation']
CASE_TIMEOUT = {'quick': 60.0, 'thorough': 300.0}
ANCHORS = []

N, P, S, PART, MS, T3, SKIPK = 'node', 'pair', 'scalar', 'partition', 'multiset', 'tensor3', 'skip'


def M(name, dom, fn, kinds, extra=None):
    return {'name': name, 'dom': dom, 'fn': fn, 'kinds': kinds if isinstance(kinds, tuple) else (kinds,), 'extra': extra}


def measures():
    L = []
    a = L.append
    a(M('degrees_und', 'und_wei', lambda b, X, e: b.degrees_und(X), N))
    a(M('degrees_dir', 'dir_wei', lambda b, X, e: b.degrees_dir(X), (N, N, N)))
    a(M('strengths_und', 'und_wei', lambda b, X, e: b.strengths_und(X), N))
    a(M('strengths_dir', 'dir_wei', lambda b, X, e: b.strengths_dir(X), N))
    a(M('strengths_und_sign', 'signed_und', lambda b, X, e: b.strengths_und_sign(X), (N, N, S, S)))
    a(M('jdegree', 'dir_int', lambda b, X, e: b.jdegree(X.astype(int)), (S, S, S, S)))
    a(M('density_und', 'und_wei', lambda b, X, e: b.density_und(X), (S, S, S)))
    a(M('density_dir', 'dir_wei', lambda b, X, e: b.density_dir(X), (S, S, S)))
    a(M('clustering_coef_bu', 'und_bin', lambda b, X, e: b.clustering_coef_bu(X), N))
    a(M('clustering_coef_bd', 'dir_bin', lambda b, X, e: b.clustering_coef_bd(X), N))
    a(M('clustering_coef_wu', 'und_wei', lambda b, X, e: b.clustering_coef_wu(X), N))
    a(M('clustering_coef_wd', 'dir_wei', lambda b, X, e: b.clustering_coef_wd(X), N))
    for ct, k in (('default', (N, N)), ('zhang', (N, N)), ('costantini', (N,))):
        a(M('clustering_coef_wu_sign:' + ct, 'signed_und', lambda b, X, e, ct=ct: b.clustering_coef_wu_sign(X, ct), k))
    a(M('transitivity_bu', 'und_bin', lambda b, X, e: b.transitivity_bu(X), S))
    a(M('transitivity_bd', 'dir_bin', lambda b, X, e: b.transitivity_bd(X), S))
    a(M('transitivity_wu', 'und_wei', lambda b, X, e: b.transitivity_wu(X), S))
    a(M('transitivity_wd', 'dir_wei', lambda b, X, e: b.transitivity_wd(X), S))
    for dom in ('und_bin', 'dir_bin'):
        a(M('distance_bin@' + dom, dom, lambda b, X, e: b.distance_bin(X), P))
        a(M('breadthdist@' + dom, dom, lambda b, X, e: b.breadthdist(X), (P, P)))
        a(M('reachdist@' + dom, dom, lambda b, X, e: [np.asarray(v, dtype=float) for v in b.reachdist(X)], (P, P)))
        a(M('charpath@' + dom, dom, lambda b, X, e: b.charpath(b.distance_bin(X)), (S, S, N, S, S)))
        a(M('betweenness_bin@' + dom, dom, lambda b, X, e: b.betweenness_bin(X), N))
        a(M('edge_betweenness_bin@' + dom, dom, lambda b, X, e: b.edge_betweenness_bin(X), (P, N)))
        a(M('pagerank_centrality@' + dom, dom, lambda b, X, e: b.pagerank_centrality(X, .85), N))
        a(M('findwalks@' + dom, dom, lambda b, X, e: b.findwalks(X), (T3, S, S)))
        a(M('matching_ind@' + dom, dom, lambda b, X, e: b.matching_ind(X), (P, P, P)))
        # with unit lengths every shortest path has the same number of edges: the edge-count output is well defined
        a(M('distance_wei:edge_counts@' + dom, dom, lambda b, X, e: b.distance_wei(X)[1], P))
        a(M('distance_wei_floyd:hops@' + dom, dom, lambda b, X, e: b.distance_wei_floyd(X)[1], P))
    for dom in ('und_wei', 'dir_wei', 'und_int', 'dir_int', 'und_neartie', 'dir_neartie', 'und_logu'):
        a(M('distance_wei@' + dom, dom, lambda b, X, e: b.distance_wei(X)[0], P))
        a(M('distance_wei_floyd@' + dom, dom, lambda b, X, e: b.distance_wei_floyd(X)[0], P))
        a(M('betweenness_wei@' + dom, dom, lambda b, X, e: b.betweenness_wei(X), N))
        a(M('edge_betweenness_wei@' + dom, dom, lambda b, X, e: b.edge_betweenness_wei(X), (P, N)))
        a(M('rout_efficiency@' + dom, dom, lambda b, X, e: b.rout_efficiency(X), (S, P, N)))
    a(M('distance_wei_floyd:inv', 'und_wei', lambda b, X, e: b.distance_wei_floyd(X, 'inv')[0], P))
    a(M('efficiency_bin', 'und_bin', lambda b, X, e: b.efficiency_bin(X), S))
    a(M('efficiency_bin:local', 'und_bin', lambda b, X, e: b.efficiency_bin(X, True), N))
    a(M('efficiency_wei', 'und_wei', lambda b, X, e: b.efficiency_wei(X), S))
    a(M('efficiency_wei:local', 'und_wei', lambda b, X, e: b.efficiency_wei(X, True), N))
    a(M('efficiency_wei:original', 'und_wei', lambda b, X, e: b.efficiency_wei(X, 'original'), N))
    a(M('diffusion_efficiency', 'und_wei_conn', lambda b, X, e: b.diffusion_efficiency(X), (S, P)))
    a(M('mean_first_passage_time', 'und_wei_conn', lambda b, X, e: b.mean_first_passage_time(X), P))
    a(M('mean_first_passage_time@dir', 'dir_wei_strong', lambda b, X, e: b.mean_first_passage_time(X), P))
    for k in (1, 2, 3):
        a(M('kcore_bu:k%d' % k, 'und_bin', lambda b, X, e, k=k: b.kcore_bu(X, k), (P, S)))
        a(M('kcore_bd:k%d' % k, 'dir_bin', lambda b, X, e, k=k: b.kcore_bd(X, k), (P, S)))
    for s in (0.6, 1.2):
        a(M('score_wu:s%s' % s, 'und_wei', lambda b, X, e, s=s: b.score_wu(X, s), (P, S)))
    a(M('kcoreness_centrality_bu', 'und_bin', lambda b, X, e: b.kcoreness_centrality_bu(X), (N, S)))
    a(M('kcoreness_centrality_bd', 'dir_bin', lambda b, X, e: b.kcoreness_centrality_bd(X), (N, S)))
    a(M('rich_club_bu', 'und_bin', lambda b, X, e: b.rich_club_bu(X), (S, S, S)))
    a(M('rich_club_bd', 'dir_bin', lambda b, X, e: b.rich_club_bd(X), (S, S, S)))
    a(M('rich_club_wu', 'und_wei', lambda b, X, e: b.rich_club_wu(X), S))
    a(M('rich_club_wd', 'dir_wei', lambda b, X, e: b.rich_club_wd(X), S))
    a(M('assortativity_bin', 'und_bin', lambda b, X, e: b.assortativity_bin(X, 0), S))
    for fl in (1, 2, 3, 4):
        a(M('assortativity_bin:flag%d' % fl, 'dir_bin', lambda b, X, e, fl=fl: b.assortativity_bin(X, fl), S))
    a(M('assortativity_wei', 'und_wei', lambda b, X, e: b.assortativity_wei(X, 0), S))
    a(M('pagerank_centrality:d50', 'und_wei', lambda b, X, e: b.pagerank_centrality(X, .5), N))
    # a per-node prior travels with the nodes: as a 1-D vector and in the documented Nx1 column form
    a(M('pagerank_centrality:prior', 'und_wei', lambda b, X, e: b.pagerank_centrality(X, .85, falff=e), N, extra='prior'))
    a(M('pagerank_centrality:prior_column', 'und_wei', lambda b, X, e: np.ravel(b.pagerank_centrality(X, .85, falff=e.reshape(-1, 1))), N, extra='prior'))
    a(M('eigenvector_centrality_und', 'und_wei_conn', lambda b, X, e: b.eigenvector_centrality_und(X), N))
    a(M('eigenvector_centrality_und@bin', 'und_bin_conn', lambda b, X, e: b.eigenvector_centrality_und(X), N))
    a(M('subgraph_centrality', 'und_bin', lambda b, X, e: b.subgraph_centrality(X), N))
    a(M('matching_ind_und', 'und_bin', lambda b, X, e: b.matching_ind_und(X), P))
    for st in (0, 1, 2, 3, 4, 5, 6):
        a(M('gtom:%d' % st, 'und_bin', lambda b, X, e, st=st: b.gtom(X, st), P))
    a(M('edge_nei_overlap_bu', 'und_bin', lambda b, X, e: b.edge_nei_overlap_bu(X), (P, MS, SKIPK)))
    a(M('edge_nei_overlap_bd', 'dir_bin', lambda b, X, e: b.edge_nei_overlap_bd(X), (P, MS, SKIPK)))
    a(M('flow_coef_bd', 'dir_bin', lambda b, X, e: b.flow_coef_bd(X), (N, S, N)))
    a(M('erange', 'dir_bin', lambda b, X, e: b.erange(X), (P, S, P, S)))
    a(M('local_assortativity_wu_sign', 'signed_und', lambda b, X, e: b.local_assortativity_wu_sign(X), (N, N)))
    a(M('get_components', 'und_bin', lambda b, X, e: b.get_components(X), (PART, MS)))
    # partition consumers: the partition is renumbered along with the nodes
    for dg in ('undirected', 'in', 'out'):
        a(M('participation_coef:' + dg, 'und_wei' if dg == 'undirected' else 'dir_wei', lambda b, X, ci, dg=dg: b.participation_coef(X, ci, dg), N, 'ci'))
    a(M('participation_coef_sign', 'signed_und', lambda b, X, ci: b.participation_coef_sign(X, ci), (N, N), 'ci'))
    for fl in (0, 1, 2, 3):
        a(M('module_degree_zscore:flag%d' % fl, 'und_wei' if fl == 0 else 'dir_wei', lambda b, X, ci, fl=fl: b.module_degree_zscore(X, ci, fl), N, 'ci'))
    a(M('diversity_coef_sign', 'signed_und', lambda b, X, ci: b.diversity_coef_sign(X, ci), (N, N), 'ci'))
    return L


MEASURES = measures()
REQUIRED = ['%s/equivariant' % m['name'] for m in MEASURES]
MIN_EVAL = {'quick': 5, 'thorough': 20}


def cases(tier, seed):
    thorough = tier == 'thorough'
    out = []
    un = 5 if thorough else 4
    dn = 4 if thorough else 3
    for n in range(2, un + 1):
        for bits in G.all_masks(n, False):
            # (n = 5: all 120 renumberings for a quarter of the 1024 graphs -- which quarter depends on the seed -- and 12
            #  random ones for the rest; with the history layer the full product took 48 minutes)
            full = n < 5 or bits % 4 == seed % 4
            out.append({'g': ['mask', n, bits, False], 'directed': False, 'ws': bits % 997, 'perms': 'all' if full else 12})
    for n in range(2, dn + 1):
        step = 1 if n < 4 else 4
        for bits in list(G.all_masks(n, True))[seed % step::step]:
            out.append({'g': ['mask', n, bits, True], 'directed': True, 'ws': bits % 997, 'perms': 'all'})
    nmax = 24 if thorough else 12
    rs = np.random.RandomState(seed + 404)
    sym = [['named', 'cycle', 5], ['named', 'cycle', 6], ['named', 'kab', 2, 3], ['named', 'kab', 3, 3], ['named', 'complete', 5],
           ['named', 'hypercube', 3], ['named', 'circulant', 8, [1, 2]], ['disjoint', ['named', 'cycle', 3], ['named', 'cycle', 3]],
           ['disjoint', ['named', 'path', 3], ['named', 'path', 3]], ['named', 'star', 6], ['named', 'wheel', 6], ['named', 'path', 6], ['named', 'path', 8], ['named', 'path', 10],
           ['named', 'path', 12], ['named', 'prufer', 11, 3], ['named', 'lollipop', 3, 7], ['named', 'cycle', 11],
           ['named', 'grid', 2, 3], ['iso', ['named', 'cycle', 4], 2], ['named', 'ring_of_cliques', 3, 3], ['named', 'barbell', 3, 2]]
    recs = [(g, False) for g in sym + G.structured_und(min(nmax, 10), seeds=(seed,))[::3]] + \
           [(g, True) for g in G.structured_dir(min(nmax, 10), seeds=(seed,))]
    for t in range(80 if thorough else 20):
        n = int(rs.randint(5, nmax + 1))
        d = bool(t % 2)
        recs.append((['er', n, float(rs.choice([.15, .3, .5, .8])), d, int(rs.randint(1 << 30))], d))
        if t % 4 == 0:
            recs.append((['named', 'er_connected', n, .2, int(rs.randint(1 << 30))], False))
            recs.append((['named', 'er_strong', n, .2, int(rs.randint(1 << 30))], True))
    for i, (g, d) in enumerate(recs):
        out.append({'g': g, 'directed': d, 'ws': seed * 100 + i, 'perms': 40 if thorough else 8})
    # a few hundred nodes with hubs of 260-290 partly reciprocated neighbours (neighbour positions beyond any small-integer
    # cache, neighbour lists longer than any block), cheap node-level measures only
    for d in (True, False):
        out.append({'g': ['named', 'hub_graph', 300, 3, seed], 'directed': d, 'ws': seed, 'perms': 2, 'symmetrize': not d,
                    'only': ['flow_coef_bd', 'degrees_dir', 'degrees_und', 'strengths_dir', 'strengths_und', 'clustering_coef_bd', 'clustering_coef_bu',
                             'clustering_coef_wd', 'clustering_coef_wu', 'transitivity_bd', 'transitivity_bu', 'density_dir', 'density_und',
                             'edge_nei_overlap_bd', 'edge_nei_overlap_bu', 'jdegree', 'matching_ind', 'matching_ind_und']})
    return out


def inputs_for(A, directed, ws):
    """domain -> matrix"""
    n = len(A)
    d = {}
    if directed:
        d['dir_bin'] = A
        d['dir_wei'] = G.weigh(A, 'real', ws, False)
        d['dir_int'] = G.weigh(A, 'int', ws, False).astype(float)
        d['dir_neartie'] = G.weigh(A, 'neartie', ws, False)
        if O.is_strongly_connected(A) and n >= 2:
            d['dir_wei_strong'] = d['dir_wei']
    else:
        d['und_bin'] = A
        d['und_wei'] = G.weigh(A, 'real', ws, True)
        d['und_int'] = G.weigh(A, 'int', ws, True)
        d['und_neartie'] = G.weigh(A, 'neartie', ws, True)
        d['und_logu'] = G.weigh(A, 'logu', ws, True)
        sg = G.weigh(A, 'signed', ws, True)
        d['signed_und'] = sg
        if O.is_connected(A) and n >= 2 and A.any():
            d['und_wei_conn'] = d['und_wei']
            d['und_bin_conn'] = A
        # symmetric matrices are also valid input of the directed routines
        d['dir_bin'] = A
        d['dir_wei'] = d['und_wei']
    return d


def transform(kind, val, p):
    v = np.asarray(val)
    if kind == N:
        return v[p]
    if kind == P:
        return v[np.ix_(p, p)]
    if kind == T3:
        return v[np.ix_(p, p)]
    return v


def compare(kind, base, perm, p):
    """is `perm` (computed on A[p,p]) the renumbered `base` (computed on A)?"""
    if kind == SKIPK:
        return True
    b = np.asarray(base)
    q = np.asarray(perm)
    if kind == PART:
        if b.shape != q.shape:
            return False
        return bool(np.array_equal(O.comembership(b[p]), O.comembership(q)))
    if kind == MS:
        return b.shape == q.shape and close(np.sort(b.astype(float).ravel()), np.sort(q.astype(float).ravel()), rtol=1e-9, atol=1e-12)
    if kind in (N, P, T3):
        if b.ndim == 0 or (kind != N and b.ndim < 2):
            return False
        try:
            tb = transform(kind, b, p)
        except Exception:  # noqa
            return False
        return close(np.asarray(tb, dtype=complex).real if np.iscomplexobj(tb) else tb, np.asarray(q, dtype=complex).real if np.iscomplexobj(q) else q,
                     rtol=1e-9, atol=1e-12)
    return close(b.astype(float), q.astype(float), rtol=1e-9, atol=1e-12)


def as_tuple(r, kinds):
    if len(kinds) == 1:
        return (r,)
    return tuple(r)


def run(case, bct, REC):
    A = G.build(case['g'])
    directed = case['directed']
    if case.get('symmetrize'):
        A = ((A + A.T) > 0).astype(float)
    n = len(A)
    dom = inputs_for(A, directed, case['ws'])
    if case['perms'] == 'all':
        perms = [np.array(p) for p in itertools.permutations(range(n))][1:]
    else:
        rs = np.random.RandomState(case['ws'] + 1)
        perms = [np.arange(n)[::-1].copy()]
        t = np.arange(n)
        if n >= 2:
            t[[0, n - 1]] = t[[n - 1, 0]]
            perms.append(t)
        perms += [rs.permutation(n) for _ in range(case['perms'])]
    ci = (np.arange(n) * 7 % 3) + 1
    for m in MEASURES:
        if m['dom'] not in dom:
            continue
        if case.get('only') and m['name'] not in case['only']:
            continue
        # a directed-domain measure on a symmetric matrix from an undirected case: keep, it is in its domain
        X = dom[m['dom']]
        extra = ci if m['extra'] == 'ci' else ((np.arange(n) * 5 % 7 + 1.0) / 7.0 if m['extra'] == 'prior' else None)
        try:
            base = as_tuple(m['fn'](bct, X.copy(), None if extra is None else extra.copy()), m['kinds'])
            berr = None
        except CaseTimeout:
            raise
        except Exception as e:  # noqa
            base, berr = None, e
        for p in perms:
            Xp = X[np.ix_(p, p)]
            REC.tag(PROP, 'exec')
            try:
                got = as_tuple(m['fn'](bct, Xp.copy(), None if extra is None else extra[p].copy()), m['kinds'])
                gerr = None
            except CaseTimeout:
                raise
            except Exception as e:  # noqa
                got, gerr = None, e
            det = {'measure': m['name'], 'A': X, 'p': p}
            if berr is not None or gerr is not None:
                if berr is not None and gerr is not None and type(berr) is type(gerr):
                    REC.skip(PROP, m['name'], 'equivariant')
                else:
                    REC.check(PROP, m['name'], 'equivariant', False, dict(det, base_raised=repr(berr)[:150] if berr else None, perm_raised=repr(gerr)[:150] if gerr else None))
                continue
            good = len(base) == len(got) and all(compare(k, b_, g_, p) for k, b_, g_ in zip(m['kinds'], base, got))
            REC.check(PROP, m['name'], 'equivariant', bool(good), dict(det, base=list(base), renumbered=list(got)))
            if not np.array_equal(Xp, X):
                REC.note_nontrivial(PROP, m['name'], X, p)
    if n <= 4:
        REC.sample(PROP, {'A': A, 'directed': directed, 'n_perms': len(perms), 'measures': len(MEASURES)}, cap=3)
