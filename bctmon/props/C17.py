"""C17 -- thresholding and weight conversion keep exactly the documented entries."""
from fractions import Fraction

import numpy as np

from .common import call, close, layout_variants_agree

PROP = 'C17'
ANCHORS = ['threshold_proportional', 'threshold_absolute', 'binarize', 'normalize', 'invert', 'weight_conversion']
RULE = ('one execution = one utility call with one matrix, one parameter and one copy flag; threshold_proportional on '
        'non-negative matrices with many tied weights (small integers), sparse supports, symmetric and not, nonzero '
        'diagonals, with p = j/64 for every j (p x count is then exactly representable and lands on k and k+1/2, so '
        'round-half-up is demanded strictly) plus p in {0,1}; threshold_absolute with thresholds equal to occurring '
        'weights; binarize / normalize / invert / weight_conversion on signed real matrices; both copy flags; '
        'non-trivial = 0 < kept < existing with a tie at the cut or p x count on a half')
EXHAUSTIVE = {'quick': 'every p = j/64, j = 0..64, for each threshold_proportional input',
              'thorough': 'every p = j/64, j = 0..64, for each threshold_proportional input'}
ASSUMPTIONS = ['with ties at the cut any choice among equal weights is accepted (no kept entry weaker than a dropped one)',
               'float64 input for normalize; integer input for invert / binarize / threshold_absolute only with copy=True', 'the expected count is round_half_up(p x N) computed in exact '
               'rational arithmetic; only p with exactly representable p x N are used']
REQUIRED = ['threshold_proportional/count', 'threshold_proportional/strongest_kept', 'threshold_proportional/values_unchanged',
            'threshold_proportional/symmetric', 'threshold_proportional/empty_diagonal', 'threshold_absolute/entries',
            'binarize/entries', 'normalize/entries', 'invert/entries', 'invert/involution', 'weight_conversion/dispatch',
            'threshold_proportional/copy_semantics', 'threshold_absolute/copy_semantics', 'binarize/copy_semantics',
            'normalize/copy_semantics', 'invert/copy_semantics']
CASE_TIMEOUT = {'quick': 30.0, 'thorough': 180.0}



def _cc_und(rs, n, binary=False, p=.15):
    A = np.triu((rs.rand(n, n) < p).astype(float), 1)
    A[np.arange(n - 1), np.arange(1, n)] = 1      # a spanning path keeps it connected
    W = A if binary else A * (rs.rand(n, n) * .9 + .1)
    return W + W.T


def cases(tier, seed):
    thorough = tier == 'thorough'
    rs = np.random.RandomState(seed + 1717)
    out = []
    for t in range(150 if thorough else 40):
        out.append({'kind': 'prop', 'n': int(rs.randint(2, 17 if thorough else 11)), 'sym': bool(t % 2), 'dens': float(rs.choice([.1, .3, .6, 1.0])),
                    'wk': ['int', 'int2', 'real', 'bin'][t % 4], 'diag': bool(t % 3 == 0), 'ms': int(rs.randint(1 << 30))})
    for t in range(40 if thorough else 12):  # all weights far below any absolute tolerance
        out.append({'kind': 'prop', 'n': int(rs.randint(3, 10)), 'sym': bool(t % 2), 'dens': float(rs.choice([.5, 1.0])),
                    'wk': ['real', 'int'][t % 2], 'diag': False, 'ms': int(rs.randint(1 << 30)), 'scale': 1e-10})
        out.append({'kind': 'util', 'n': int(rs.randint(3, 10)), 'sym': bool(t % 2), 'dens': 1.0,
                    'wk': ['signed', 'real'][t % 2], 'diag': False, 'ms': int(rs.randint(1 << 30)), 'scale': 1e-10})
    for t in range(30 if thorough else 10):  # nearly symmetric but beyond np.allclose's 1e-5 relative tolerance: must be treated as directed
        out.append({'kind': 'prop', 'n': int(rs.randint(3, 10)), 'sym': True, 'dens': float(rs.choice([.6, 1.0])), 'wk': 'real',
                    'diag': False, 'ms': int(rs.randint(1 << 30)), 'nearsym': float(rs.choice([1e-3, 3e-2]))})
    for t in range(24 if thorough else 8):  # self-connections 1e9..1e13 times larger than any difference between W and its transpose
        out.append({'kind': 'prop', 'n': int(rs.randint(2, 9)), 'sym': False, 'dens': float(rs.choice([.6, 1.0])), 'wk': ['real', 'int'][t % 2],
                    'diag': False, 'ms': int(rs.randint(1 << 30)), 'hugediag': float(10.0 ** rs.randint(9, 14))})
    for n in range(2, 17 if thorough else 13):  # dense supports: the rounding boundary decides the count
        for sym in (False, True):
            for wk in ('real', 'int'):
                out.append({'kind': 'prop', 'n': n, 'sym': sym, 'dens': 1.0, 'wk': wk, 'diag': False, 'ms': int(rs.randint(1 << 30))})
    for t in range(120 if thorough else 40):
        out.append({'kind': 'util', 'n': int(rs.randint(2, 14)), 'sym': bool(t % 2), 'dens': float(rs.choice([.2, .5, 1.0])),
                    'wk': ['signed', 'signedint', 'real', 'int'][t % 4], 'diag': bool(t % 3 == 0), 'ms': int(rs.randint(1 << 30))})
    out.append({'kind': 'concurrent', 'g': ['named', 'path', 2], 'directed': False, 'ws': seed, 'schemes': [], 'n': 220 if tier == 'thorough' else 120})
    return out


def make(case):
    rs = np.random.RandomState(case['ms'])
    n = case['n']
    wk = case['wk']
    if wk == 'int':
        W = rs.randint(1, 4, size=(n, n)).astype(float)
    elif wk == 'int2':
        W = rs.randint(1, 3, size=(n, n)).astype(float)
    elif wk == 'real':
        W = rs.rand(n, n) + 0.01
    elif wk == 'bin':
        W = np.ones((n, n))
    elif wk == 'signed':
        W = rs.randn(n, n)
    else:
        W = rs.randint(1, 4, size=(n, n)) * rs.choice([-1.0, 1.0], size=(n, n))
    W = W * (rs.rand(n, n) < case['dens'])
    if case['sym']:
        W = np.triu(W, 1)
        W = W + W.T
    if case['diag']:
        W[np.arange(n), np.arange(n)] = rs.randint(1, 5, size=n)
    else:
        np.fill_diagonal(W, 0)
    if case.get('nearsym'):
        W = W * (1.0 + case['nearsym'] * np.triu(rs.rand(n, n), 1))   # perturb the upper triangle only
    if case.get('hugediag'):
        W[np.arange(n), np.arange(n)] = case['hugediag'] * (1 + np.arange(n))
    return W * case.get('scale', 1.0)


def half_up(fr):
    return int((fr + Fraction(1, 2)).__floor__())


def copy_semantics(REC, fname, f, W, args, expected_fn):
    """copy=True: argument untouched, result does not share memory; copy=False: result is the argument"""
    n = len(W)

    def layouts():
        yield 'C', W.copy()
        yield 'F', np.asfortranarray(W)
        big = np.zeros((2 * n, 2 * n))
        big[::2, ::2] = W
        yield 'strided_view', big[::2, ::2]
        stack = np.zeros((n, n, 3))
        stack[:, :, 1] = W
        yield 'stack_slice', stack[:, :, 1]
    for lname, X in layouts():
        try:
            r = f(X, *args, copy=True)
            ok = bool(np.array_equal(X, W)) and not np.shares_memory(r, X)
            r2 = f(X, *args, copy=False)
            ok2 = (r2 is X) and close(np.asarray(X, dtype=float), np.asarray(r, dtype=float), rtol=1e-12, atol=0)
            REC.check(PROP, fname, 'copy_semantics', ok and ok2, {'W': W, 'args': list(args), 'layout': lname, 'copy_true_ok': ok, 'copy_false_ok': ok2},
                      ('layout:' + lname,))
        except Exception as e:  # noqa
            REC.check(PROP, fname, 'copy_semantics', False, {'W': W, 'args': list(args), 'layout': lname, 'exception': repr(e)[:200]}, ('layout:' + lname,))


def run_prop(case, bct, REC):
    W = make(case)
    n = len(W)
    off = ~np.eye(n, dtype=bool)
    sym = bool(np.array_equal(W, W.T))
    Woff = np.where(off, W, 0.0)
    if sym:
        N = n * (n - 1) // 2
        cand = np.triu(Woff, 1)
    else:
        N = n * (n - 1)
        cand = Woff
    existing = int((cand != 0).sum())
    for j in range(0, 65):
        p = j / 64.0
        REC.tag(PROP, 'exec')
        exact = Fraction(j, 64) * N
        want = min(half_up(exact), existing)
        ok, X = call(REC, PROP, 'threshold_proportional', bct.threshold_proportional, W.copy(), p)
        if not ok:
            continue
        X = np.asarray(X)
        det = {'W': W, 'p': p, 'got': X, 'expected_count': want}
        kept = (X != 0)
        got = int(np.triu(kept, 1).sum()) if sym else int(kept.sum())
        REC.check(PROP, 'threshold_proportional', 'count', got == want and (not sym or int(kept.sum()) == 2 * want), dict(det, got_count=got))
        REC.check(PROP, 'threshold_proportional', 'empty_diagonal', bool(np.all(np.diag(X) == 0)), det)
        REC.check(PROP, 'threshold_proportional', 'values_unchanged', bool(np.all(X[kept] == Woff[kept])), det)
        if sym:
            REC.check(PROP, 'threshold_proportional', 'symmetric', bool(np.array_equal(X, X.T)), det)
        dropped = (~kept) & (Woff != 0)
        if kept.any() and dropped.any():
            REC.check(PROP, 'threshold_proportional', 'strongest_kept', bool(Woff[kept].min() >= Woff[dropped].max()), det)
        else:
            REC.check(PROP, 'threshold_proportional', 'strongest_kept', True)
        if 0 < want < existing:
            srt = np.sort(cand[cand != 0])[::-1]
            tie = srt[want - 1] == srt[want]
            if tie or exact.denominator == 2:
                REC.note_nontrivial(PROP, 'prop', W, j)
                REC.tag(PROP, 'class:tie_at_cut' if tie else 'class:half')
    # the floats next to a rounding boundary: p x count one ulp below / above m + 1/2.  Judged only where exact
    # arithmetic on the float p and both float evaluation orders fall on the same side (no legitimate ambiguity).
    ud = 2 if sym else 1
    for m in sorted({0, 1, N // 2, max(N - 1, 0)}):
        if N == 0:
            break
        p0 = (m + 0.5) / N
        for pv in (np.nextafter(p0, 0.0), p0, np.nextafter(p0, 1.0)):
            pv = float(pv)
            if not 0.0 <= pv <= 1.0:
                continue
            exact = Fraction(pv) * N
            x = (n * n - n) * pv / ud
            sides = {half_up(exact), half_up(Fraction(x)), half_up(Fraction(pv * N))}   # exact roundings of the float products
            if len(sides) != 1:
                REC.tag(PROP, 'ulp_neighbour_ambiguous_skipped')
                continue
            want = min(half_up(exact), existing)
            REC.tag(PROP, 'exec')
            ok, X = call(REC, PROP, 'threshold_proportional', bct.threshold_proportional, W.copy(), pv)
            if ok:
                kept = (np.asarray(X) != 0)
                got = int(np.triu(kept, 1).sum()) if sym else int(kept.sum())
                REC.check(PROP, 'threshold_proportional', 'count', got == want, {'W': W, 'p': repr(pv), 'got_count': got, 'expected_count': want,
                                                                                   'p_times_count': repr(x)}, ('ulp_neighbour_of_half',))
    for pp in (0.125, 0.5):
        layout_variants_agree(REC, PROP, 'threshold_proportional', bct.threshold_proportional, W, args=(pp,))
    copy_semantics(REC, 'threshold_proportional', bct.threshold_proportional, W, (0.25,), None)
    # absolute threshold at every occurring weight and between
    vals = sorted(set(Woff[Woff != 0].tolist()))
    thrs = sorted(set(vals + [(a + b) / 2 for a, b in zip(vals[:-1], vals[1:])] + [0.0, (vals[-1] + 1) if vals else 1.0]))[:12]
    for thr in thrs:
        REC.tag(PROP, 'exec')
        ok, X = call(REC, PROP, 'threshold_absolute', bct.threshold_absolute, W.copy(), thr)
        if ok:
            exp = np.where(off & (W >= thr), W, 0.0)
            REC.check(PROP, 'threshold_absolute', 'entries', bool(np.array_equal(np.asarray(X), exp)), {'W': W, 'thr': thr, 'got': X})
            if 0 < (exp != 0).sum() < (Woff != 0).sum():
                REC.note_nontrivial(PROP, 'abs', W, thr)
    copy_semantics(REC, 'threshold_absolute', bct.threshold_absolute, W, (thrs[len(thrs) // 2],), None)
    REC.sample(PROP, {'kind': 'prop', 'W': W if n <= 6 else list(W.shape), 'sym': sym}, cap=3)


def run_util(case, bct, REC):
    W = make(case)
    n = len(W)
    if not np.any(W):
        return
    REC.tag(PROP, 'exec')
    # the absolute threshold on real (signed) matrices: at occurring values of either sign, between them, at 0
    off = ~np.eye(n, dtype=bool)
    vals = sorted(set(W[off & (W != 0)].tolist()))
    thrs = sorted(set(vals[:3] + vals[-3:] + [0.0] + [(a + b) / 2 for a, b in zip(vals[:-1], vals[1:])][:4]))
    for thr in thrs:
        ok, X = call(REC, PROP, 'threshold_absolute', bct.threshold_absolute, W.copy(), thr)
        if ok:
            REC.check(PROP, 'threshold_absolute', 'entries', bool(np.array_equal(np.asarray(X), np.where(off & (W >= thr), W, 0.0))),
                      {'W': W, 'thr': thr, 'got': X}, ('signed_matrix',) if (W < 0).any() else ())
    if thrs:
        copy_semantics(REC, 'threshold_absolute', bct.threshold_absolute, W, (thrs[-1],), None)
    ok, X = call(REC, PROP, 'binarize', bct.binarize, W.copy())
    if ok:
        REC.check(PROP, 'binarize', 'entries', bool(np.array_equal(np.asarray(X), (W != 0).astype(float))), {'W': W, 'got': X})
    ok, X = call(REC, PROP, 'normalize', bct.normalize, W.copy())
    if ok:
        REC.check(PROP, 'normalize', 'entries', close(X, W / np.max(np.abs(W)), rtol=1e-15, atol=0) and
                  bool(np.isclose(np.max(np.abs(X)), 1.0, rtol=1e-15)), {'W': W, 'got': X})
    ok, X = call(REC, PROP, 'invert', bct.invert, W.copy())
    if ok:
        with np.errstate(all='ignore'):
            exp = np.where(W != 0, 1.0 / np.where(W != 0, W, 1), 0.0)
        REC.check(PROP, 'invert', 'entries', close(X, exp, rtol=1e-15, atol=0), {'W': W, 'got': X})
        ok2, Y = call(REC, PROP, 'invert', bct.invert, np.asarray(X).copy())
        if ok2:
            REC.check(PROP, 'invert', 'involution', close(Y, W, rtol=1e-12, atol=0), {'W': W, 'got': Y})
    for cmd, fn in (('binarize', bct.binarize), ('normalize', bct.normalize), ('lengths', bct.invert)):
        ok, X = call(REC, PROP, 'weight_conversion', bct.weight_conversion, W.copy(), cmd)
        if ok:
            REC.check(PROP, 'weight_conversion', 'dispatch', close(X, fn(W.copy()), rtol=0, atol=0), {'W': W, 'cmd': cmd, 'got': X})
        X2 = W.copy()
        try:
            r2 = bct.weight_conversion(X2, cmd, copy=False)
            REC.check(PROP, 'weight_conversion', 'copy_semantics', r2 is X2 and close(X2, fn(W.copy()), rtol=0, atol=0), {'W': W, 'cmd': cmd})
        except Exception as e:  # noqa
            REC.check(PROP, 'weight_conversion', 'copy_semantics', False, {'W': W, 'cmd': cmd, 'exception': repr(e)[:200]})
    for fname in ('binarize', 'normalize', 'invert'):
        copy_semantics(REC, fname, getattr(bct, fname), W, (), None)
    # the same utilities on connection COUNTS held in integer arrays (default copy=True: the result is a new array,
    # so it can and must hold 1/w; with copy=False an integer argument cannot hold the result and is not judged)
    scale = 3.0 / max(float(np.max(np.abs(W))), 1e-300)
    for dt in (np.int64, np.int32, np.uint8):
        Wi = np.round(W * scale)
        if dt is np.uint8:
            Wi = np.abs(Wi)
        Wi = Wi.astype(dt)
        if not np.any(Wi):
            continue
        Wf = Wi.astype(float)
        cls = ('integer_dtype:' + np.dtype(dt).name,)
        with np.errstate(all='ignore'):
            expi = np.where(Wf != 0, 1.0 / np.where(Wf != 0, Wf, 1), 0.0)
        for label, f, args in (('invert', bct.invert, ()), ('weight_conversion', bct.weight_conversion, ('lengths',))):
            ok, X = call(REC, PROP, label, f, Wi.copy(), *args, _classes=cls)
            if ok:
                REC.check(PROP, label, 'entries' if label == 'invert' else 'dispatch', close(X, expi, rtol=1e-15, atol=0),
                          {'W': Wi, 'dtype': str(Wi.dtype), 'got': X, 'expected': expi}, cls)
        ok, X = call(REC, PROP, 'binarize', bct.binarize, Wi.copy(), _classes=cls)
        if ok:
            REC.check(PROP, 'binarize', 'entries', bool(np.array_equal(np.asarray(X), (Wf != 0).astype(float))), {'W': Wi, 'got': X}, cls)
        for thr in (1, 2):
            ok, X = call(REC, PROP, 'threshold_absolute', bct.threshold_absolute, Wi.copy(), thr, _classes=cls)
            if ok:
                REC.check(PROP, 'threshold_absolute', 'entries', bool(np.array_equal(np.asarray(X), np.where(off & (Wf >= thr), Wf, 0.0))),
                          {'W': Wi, 'thr': thr, 'got': X}, cls)
    REC.note_nontrivial(PROP, 'util', W)
    REC.sample(PROP, {'kind': 'util', 'W': W if n <= 6 else list(W.shape)}, cap=3)


def run(case, bct, REC):
    if case.get('kind') == 'concurrent':
        from .common import concurrent_callers_agree
        REC.tag(PROP, 'exec')
        return concurrent_callers_agree(REC, PROP, bct, [('threshold_proportional', lambda rs, n: (_cc_und(rs, n), .3)), ('threshold_absolute', lambda rs, n: (_cc_und(rs, n), .5)), ('weight_conversion', lambda rs, n: (_cc_und(rs, n), 'lengths'))], case['n'], case['ws'])
    import warnings
    # every other case runs in a process that turns warnings into errors (python -W error, pytest's filterwarnings =
    # error): the utilities emit none on valid input, so nothing may change
    strict = case['ms'] % 2 == 0
    with warnings.catch_warnings():
        if strict:
            warnings.simplefilter('error')
            REC.tag(PROP, 'cases_with_warnings_as_errors')
        if case['kind'] == 'prop':
            run_prop(case, bct, REC)
        else:
            run_util(case, bct, REC)
