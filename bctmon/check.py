"""Run one property's check: shard the workload over subprocesses, merge the
event summaries, decide the three-valued verdict, write the evidence file.

exit 0  held on everything observed (KNOWN-FINDING lines may be printed)
exit 1  VIOLATION property=<id> replay=<path>
exit 2  INCONCLUSIVE (an obligation was never observed, too many timeouts, dead shard)
"""
import argparse
import importlib
import json
import os
import shutil
import subprocess
import sys
import time

HERE = os.path.dirname(os.path.dirname(os.path.abspath(__file__)))
PY = sys.executable


def load_known():
    p = os.path.join(HERE, 'known_findings.json')
    if not os.path.exists(p):
        return []
    return json.load(open(p)).get('findings', [])


def match_known(known, prop, func, clause, classes):
    for k in known:
        if k.get('status') != 'open':
            continue
        if k['property'] == prop and k['function'] == func and k['clause'] == clause:
            ic = k.get('input_class')
            if ic is None or ic in classes:
                return k
    return None


def run_property(prop, tier, seed, jobs, keep=False, quiet=False):
    t0 = time.time()
    mod = importlib.import_module('bctmon.props.' + prop)
    work = os.path.join(HERE, '.work', '%s-%s-%d' % (prop, tier, os.getpid()))
    shutil.rmtree(work, ignore_errors=True)
    os.makedirs(work)
    case_timeout = getattr(mod, 'CASE_TIMEOUT', {'quick': 20.0, 'thorough': 120.0})[tier]
    shard_timeout = getattr(mod, 'SHARD_TIMEOUT', {'quick': 600.0, 'thorough': 3 * 3600.0})[tier]
    env = dict(os.environ)
    env['PYTHONPATH'] = HERE + os.pathsep + env.get('PYTHONPATH', '')
    env.setdefault('PYTHONHASHSEED', '0')
    env['OMP_NUM_THREADS'] = env['OPENBLAS_NUM_THREADS'] = env['MKL_NUM_THREADS'] = '1'
    procs = []
    # workloads derive many RandomState seeds as small multiples of the seed: keep it small (any integer is accepted)
    wseed = abs(int(seed)) % 100003
    for s in range(jobs):
        out = os.path.join(work, 'shard%d.json' % s)
        log = open(os.path.join(work, 'shard%d.log' % s), 'w')
        p = subprocess.Popen([PY, '-m', 'bctmon.worker', prop, tier, str(wseed), str(s), str(jobs), out,
                              str(case_timeout)], cwd=HERE, env=env, stdout=log, stderr=subprocess.STDOUT)
        procs.append((p, out, log))
    dead = []
    results = []
    deadline = time.time() + shard_timeout
    for s, (p, out, log) in enumerate(procs):
        try:
            p.wait(timeout=max(1.0, deadline - time.time()))
        except subprocess.TimeoutExpired:
            p.terminate()  # the worker dumps what it has on SIGTERM
            try:
                p.wait(timeout=20)
            except subprocess.TimeoutExpired:
                p.kill()
                p.wait()
            dead.append('shard %d: wall-clock watchdog' % s)
        log.close()
        if os.path.exists(out):
            try:
                results.append(json.load(open(out)))
                continue
            except Exception:
                pass
        tail = open(os.path.join(work, 'shard%d.log' % s)).read()[-800:]
        dead.append('shard %d: exit %s, no result: %s' % (s, p.returncode, tail))
    merged = merge(results)
    verdict = decide(prop, mod, tier, seed, merged, dead, time.time() - t0, quiet)
    if not keep:
        shutil.rmtree(work, ignore_errors=True)
    return verdict


def merge(results):
    m = {'counts': {}, 'witness': [], 'nontrivial': {}, 'tags': {}, 'samples': {}, 'calls': {}, 'timeouts': 0,
         'case_errors': [], 'schedules': set(), 'coverage': {}, 'ncases_total': 0, 'done': 0, 'skips': {}}
    for r in results:
        for k, v in r['counts']:
            c = m['counts'].setdefault(tuple(k), [0, 0])
            c[0] += v[0]
            c[1] += v[1]
        m['witness'] += r['witness']
        for p, s in r['nontrivial'].items():
            m['nontrivial'].setdefault(p, set()).update(s)
        for p, d in r['tags'].items():
            t = m['tags'].setdefault(p, {})
            for k, v in d.items():
                t[k] = t.get(k, 0) + v
        for p, l in r['samples'].items():
            m['samples'].setdefault(p, [])
            if len(m['samples'][p]) < 6:
                m['samples'][p] += l[:2]
        for k, v in r['calls'].items():
            m['calls'][k] = m['calls'].get(k, 0) + v
        m['timeouts'] += r['timeouts']
        m['case_errors'] += r['case_errors']
        m['schedules'].update(r['schedules'])
        m['ncases_total'] = max(m['ncases_total'], r['ncases_total'])
        m['done'] += r['done']
        for k, v in r.get('skips', []):
            kk = (k[0], k[1], k[2], tuple(k[3]))
            m['skips'][kk] = m['skips'].get(kk, 0) + v
        for f, c in r.get('coverage', {}).items():
            d = m['coverage'].setdefault(f, {'entries': 0, 'lines_hit': set(), 'lines_all': set(c['lines_all']),
                                             'file': c['file']})
            d['entries'] += c['entries']
            d['lines_hit'].update(c['lines_hit'])
    return m


def decide(prop, mod, tier, seed, m, dead, wall, quiet=False):
    known = load_known()
    counts = {k: v for k, v in m['counts'].items() if k[0] == prop}
    evals = m['tags'].get(prop, {}).get('exec', 0)
    side = {}
    for k, v in m['counts'].items():
        if k[0] != prop:
            d = side.setdefault(k[0], {'evaluated': 0, 'violations': 0})
            d['evaluated'] += v[0]
            d['violations'] += v[1]
    # ---- violations
    viol_groups = {}
    known_seen = {}
    wit = {}
    for w in m['witness']:
        wit.setdefault((w['property'], w['function'], w['clause'], tuple(w.get('classes', []))), []).append(w)
    # every (function, clause, input class) with violations is decided, whether or not a witness was kept
    for (p_, func, clause, classes), cnt in sorted(m['skips'].items()):
        if p_ != prop:
            continue
        k = match_known(known, prop, func, clause, list(classes))
        if k is not None:
            known_seen.setdefault(k['id'], [k, 0])
            known_seen[k['id']][1] += cnt
            continue
        ws = wit.get((p_, func, clause, classes)) or [{'property': prop, 'function': func, 'clause': clause,
                                                        'classes': list(classes), 'detail': None, 'case': None,
                                                        'workload': prop, 'note': 'witness cap reached'}]
        viol_groups.setdefault((func, clause), []).extend(ws)
    nviol = sum(v[1] for k, v in counts.items())
    lines = []
    rdir = os.path.join(os.environ.get('BCTMON_OUT', HERE), 'replays', prop)
    if viol_groups:
        shutil.rmtree(rdir, ignore_errors=True)
        os.makedirs(rdir, exist_ok=True)
    from . import loader
    for i, ((func, clause), ws) in enumerate(sorted(viol_groups.items())[:10]):
        path = os.path.join(rdir, '%02d_%s_%s.json' % (i, func, clause))
        rec = dict(ws[0])
        rec['tier'] = tier
        rec['seed'] = seed
        rec['repo_head'] = loader.git_head()
        rec['n_similar'] = counts.get((prop, func, clause), [0, 0])[1]
        json.dump(rec, open(path, 'w'), indent=1)
        lines.append('VIOLATION property=%s replay=%s  # %s/%s x%d' % (prop, path, func, clause, rec['n_similar']))
    for kid, (k, n) in sorted(known_seen.items()):
        lines.append('KNOWN-FINDING: property=%s %s/%s%s: %s' % (
            prop, k['function'], k['clause'], (' [' + k['input_class'] + ']') if k.get('input_class') else '',
            k['summary']))
    # ---- obligations
    min_n = getattr(mod, 'MIN_EVAL', {'quick': 5, 'thorough': 20})[tier]
    missing = []
    for req in getattr(mod, 'REQUIRED', []):
        f, c = req.split('/')
        got = counts.get((prop, f, c), [0, 0])[0]
        if got < min_n:
            # a function that always raises shows up as returns-violations, not as a missing obligation
            r = counts.get((prop, f, 'returns'), [0, 0])
            if r[1] > 0:
                continue
            missing.append('%s (%d < %d)' % (req, got, min_n))
    incon = []
    if missing:
        incon.append('obligations never observed: ' + ', '.join(missing[:8]))
    ntimeouts = m['timeouts']
    ncases = max(m['ncases_total'], 1)
    if ntimeouts > max(3, 0.05 * ncases):
        incon.append('%d of %d cases hit the watchdog' % (ntimeouts, ncases))
    if dead:
        incon.append('dead shards: ' + '; '.join(d[:300] for d in dead[:3]))
    if m['case_errors']:
        incon.append('%d harness errors, first: %s' % (len(m['case_errors']), m['case_errors'][0]['trace'][-400:]))
    if m['done'] < m['ncases_total']:
        incon.append('only %d of %d cases ran' % (m['done'], m['ncases_total']))
    for t, cnt in sorted(m['tags'].get(prop, {}).items()):
        if t.startswith('INCONCLUSIVE:'):      # a workload could not apply its deciding monitor to some execution
            incon.append('%s (x%d)' % (t[len('INCONCLUSIVE:'):], cnt))
    distinct = len(m['nontrivial'].get(prop, ()))
    if not viol_groups and distinct < 2:
        incon.append('fewer than 2 distinct non-trivial cases observed')
    # ---- evidence
    functions = {}
    for (p, f, c), v in sorted(counts.items()):
        functions.setdefault(f, {})[c] = {'evaluated': v[0], 'violations': v[1]}
    cov = {}
    for f, c in m['coverage'].items():
        never = sorted(c['lines_all'] - c['lines_hit'])
        src = []
        try:
            L = open(c['file']).read().split('\n')
            src = [L[i - 1].strip() for i in never[:12]]
        except Exception:
            pass
        cov[f] = {'entries': c['entries'], 'lines_hit': len(c['lines_hit']), 'lines_total': len(c['lines_all']),
                  'never_executed': src}
    tags = dict(m['tags'].get(prop, {}))
    ev = {
        'property_id': prop, 'tier': tier, 'seed': seed, 'level': 'exploration',
        'coverage': {
            'evaluations': int(evals),
            'distinct_nontrivial': int(distinct),
            'rule': getattr(mod, 'RULE', ''),
            'samples': m['samples'].get(prop, [])[:6],
            'exhaustive': bool(getattr(mod, 'EXHAUSTIVE', {}).get(tier)) if isinstance(getattr(mod, 'EXHAUSTIVE', None), dict) else False,
            'exhaustive_subspace': (getattr(mod, 'EXHAUSTIVE', {}) or {}).get(tier, '') if isinstance(getattr(mod, 'EXHAUSTIVE', None), dict) else '',
            'cases': m['ncases_total'],
            'clause_evaluations': int(sum(v[0] for v in counts.values())),
            'functions': functions,
            'tags': tags,
            'distinct_schedules': len(m['schedules']),
            'depth0_calls': dict(sorted(m['calls'].items())),
            'anchored_function_coverage': cov,
            'timeouts': ntimeouts,
            'known_findings_seen': {kid: n for kid, (k, n) in known_seen.items()},
            'side_observations': side,
            'verdict': 'violated' if viol_groups else ('inconclusive' if incon else 'held_on_observed'),
            'inconclusive_reasons': incon,
        },
        'assumptions': getattr(mod, 'ASSUMPTIONS', []),
        'wall_s': round(wall, 2),
        'violations': int(sum(len(v) and counts.get((prop, f, c), [0, 0])[1] for (f, c), v in viol_groups.items())),
    }
    if ev['coverage']['evaluations'] < 1:
        ev['coverage']['evaluations'] = int(ev['coverage']['clause_evaluations'])
    edir = os.path.join(os.environ.get('BCTMON_OUT', HERE), 'evidence')
    os.makedirs(edir, exist_ok=True)
    json.dump(ev, open(os.path.join(edir, prop + '.json'), 'w'), indent=1, sort_keys=True)
    if not quiet:
        for l in lines:
            print(l)
        for r in incon:
            print('INCONCLUSIVE property=%s reason=%s' % (prop, r))
        print('%s %s seed=%d: %s; %d cases, %d executions, %d clause evaluations, %d distinct non-trivial, '
              '%d timeouts, %.1fs' % (prop, tier, seed, ev['coverage']['verdict'], m['ncases_total'], evals,
                                      ev['coverage']['clause_evaluations'], distinct, ntimeouts, wall))
    if viol_groups:
        return 1
    if incon:
        return 2
    return 0


def main():
    ap = argparse.ArgumentParser()
    ap.add_argument('--property', required=True)
    ap.add_argument('--tier', default=os.environ.get('VERIF_TIER', 'quick'), choices=['quick', 'thorough'])
    ap.add_argument('--seed', type=int, default=int(os.environ.get('VERIF_SEED', '0') or 0))
    ap.add_argument('--jobs', type=int, default=int(os.environ.get('VERIF_JOBS', '16')))
    ap.add_argument('--keep', action='store_true')
    a = ap.parse_args()
    sys.exit(run_property(a.property, a.tier, a.seed, a.jobs, a.keep))


if __name__ == '__main__':
    main()
